import WalrusVerif.Model.Plane
import WalrusVerif.Lemmas.AMapLemmas
/-! Lemmas about the data-plane model (C22, C23). -/
namespace WalrusVerif.Plane
open WalrusVerif

theorem node_setNode (w : World) (e : Nat) (s : NodeSt) (n : Nat) :
    (w.setNode e s).node n = if e = n then s else w.node n := by
  unfold World.setNode World.node
  simp only [AMap.get?_insert]
  by_cases h : e = n <;> simp [h]

/-- the part of a node's state the lease discipline is about -/
def core (s : NodeSt) : Meta.ClusterState × Nat × List Key × Nat := (s.md, s.applied, s.leases, s.leaseApplied)

/-- how one step may change a node's `core`: not at all, or by a lease refresh -/
def CoreStep (s s' : NodeSt) (n : Nat) : Prop := core s' = core s ∨ core s' = core (updateLeases s n)

theorem coreStep_refl (s : NodeSt) (n : Nat) : CoreStep s s n := Or.inl rfl

theorem finish_node (w : World) (tid : Nat) (r : Res) (n : Nat) : (finish w tid r).1.node n = w.node n := rfl

theorem monLoop_node (w : World) (tid n : Nat) (l : List (Name × Nat)) (m : Nat) :
    (monLoop w tid n l).1.node m = w.node m := by
  induction l generalizing w with
  | nil => rfl
  | cons p r ih =>
    obtain ⟨topic, seg⟩ := p
    unfold monLoop
    simp only
    split
    · exact ih w
    · rfl

theorem getLoop_core (w : World) (tid n : Nat) (topic : Name) (seg del : Nat) (m : Nat) :
    core ((getLoop w tid n topic seg del).1.node m) = core (w.node m) := by
  unfold getLoop
  simp only
  split
  · show core (({ (w.setNode n _) with tasks := _ } : World).node m) = _
    show core ((w.setNode n _).node m) = _
    rw [node_setNode]; by_cases h : n = m <;> simp [h, core]
  · split
    · show core ((w.setNode n _).node m) = _
      rw [node_setNode]; by_cases h : n = m <;> simp [h, core]
    · rfl

/-- setting a node to a state with the same `core` does not change anybody's `core` -/
theorem core_setNode_same (w : World) (e : Nat) (s : NodeSt) (m : Nat) (h : core s = core (w.node e)) :
    core ((w.setNode e s).node m) = core (w.node m) := by
  rw [node_setNode]; by_cases he : e = m
  · subst he; simp [h]
  · simp [he]

theorem core_setNode_refresh (w : World) (e : Nat) (m : Nat) :
    CoreStep (w.node m) ((w.setNode e (updateLeases (w.node e) e)).node m) m := by
  rw [node_setNode]; by_cases he : e = m
  · subst he; simp only [if_true]; exact Or.inr rfl
  · simp only [he, if_false]; exact Or.inl rfl

theorem stepTask_core (w : World) (tid m : Nat) : CoreStep (w.node m) ((stepTask w tid).1.node m) m := by
  unfold stepTask
  split
  · exact coreStep_refl _ _
  · exact coreStep_refl _ _
  · -- putStart
    rename_i n topic x _
    split
    · exact coreStep_refl _ _
    · rename_i ts _
      simp only
      split
      · exact coreStep_refl _ _
      · exact core_setNode_refresh w ts.leaderNode m
  · -- putRefreshed
    rename_i c _
    simp only
    split
    · exact coreStep_refl _ _
    · split
      · exact core_setNode_refresh w c.e m
      · exact core_setNode_refresh w c.e m
  · -- putChecked
    rename_i c _
    simp only
    split
    · exact coreStep_refl _ _
    · exact Or.inl (core_setNode_same w c.e _ m rfl)
  · -- putLocked
    rename_i c _
    exact Or.inl (core_setNode_same w c.e _ m rfl)
  · -- putWritten
    rename_i c _
    exact Or.inl (core_setNode_same w c.e _ m rfl)
  · exact coreStep_refl _ _
  · -- putCounted
    rename_i c cnt _
    split
    · exact coreStep_refl _ _
    · exact coreStep_refl _ _
  · -- putAwait
    split
    · exact coreStep_refl _ _
    · exact coreStep_refl _ _
  · -- getStart
    rename_i n topic _
    simp only
    split
    · exact coreStep_refl _ _
    · refine Or.inl ?_
      rw [getLoop_core]
      exact core_setNode_same w n _ m rfl
  · -- getPlanned
    rename_i n topic seg del cur leader _
    simp only
    split
    · exact Or.inl (core_setNode_same w n _ m rfl)
    · split
      · refine Or.inl ?_
        show core (((w.setNode leader _).setNode n _).node m) = _
        rw [node_setNode]
        by_cases h1 : n = m
        · subst h1
          simp only [if_true, core]
          rw [node_setNode]
          by_cases h2 : leader = n <;> simp [h2]
        · simp only [h1, if_false]
          rw [node_setNode]
          by_cases h2 : leader = m <;> simp [h2, core]
      · split
        · exact Or.inl (getLoop_core w tid n topic (seg + 1) 0 m)
        · exact Or.inl (core_setNode_same w n _ m rfl)
  · exact coreStep_refl _ _
  · -- monTick
    rename_i n _
    exact Or.inl (by rw [monLoop_node])
  · -- monAwait
    rename_i n idx rest _
    split
    · exact Or.inl (by rw [monLoop_node])
    · exact coreStep_refl _ _

/-! ### association-map facts used for the metadata -/

theorem erase_cons_eq {κ ν : Type} [DecidableEq κ] (k' : κ) (v' : ν) (r : AMap κ ν) (k : κ) (hk : k' = k) :
    AMap.erase ((k', v') :: r) k = AMap.erase r k := by
  show (if k' = k then AMap.erase r k else (k', v') :: AMap.erase r k) = _
  rw [if_pos hk]

theorem erase_cons_ne {κ ν : Type} [DecidableEq κ] (k' : κ) (v' : ν) (r : AMap κ ν) (k : κ) (hk : ¬ k' = k) :
    AMap.erase ((k', v') :: r) k = (k', v') :: AMap.erase r k := by
  show (if k' = k then AMap.erase r k else (k', v') :: AMap.erase r k) = _
  rw [if_neg hk]

theorem keys_cons {κ ν : Type} (k' : κ) (v' : ν) (r : AMap κ ν) : AMap.keys ((k', v') :: r) = k' :: AMap.keys r := rfl

theorem keys_erase_subset {κ ν : Type} [DecidableEq κ] (m : AMap κ ν) (k j : κ) (h : j ∈ (m.erase k).keys) : j ∈ m.keys ∧ j ≠ k := by
  induction m with
  | nil => simp [AMap.erase, AMap.keys] at h
  | cons p r ih =>
    obtain ⟨k', v'⟩ := p
    by_cases hk : k' = k
    · rw [erase_cons_eq k' v' r k hk] at h
      have := ih h
      rw [keys_cons]
      exact ⟨List.mem_cons_of_mem _ this.1, this.2⟩
    · rw [erase_cons_ne k' v' r k hk, keys_cons, List.mem_cons] at h
      rw [keys_cons]
      rcases h with h | h
      · subst h; exact ⟨List.mem_cons_self, hk⟩
      · have := ih h
        exact ⟨List.mem_cons_of_mem _ this.1, this.2⟩

theorem nodup_keys_erase {κ ν : Type} [DecidableEq κ] (m : AMap κ ν) (k : κ) (h : m.keys.Nodup) : (m.erase k).keys.Nodup := by
  induction m with
  | nil => simp [AMap.erase, AMap.keys]
  | cons p r ih =>
    obtain ⟨k', v'⟩ := p
    rw [keys_cons, List.nodup_cons] at h
    by_cases hk : k' = k
    · rw [erase_cons_eq k' v' r k hk]; exact ih h.2
    · rw [erase_cons_ne k' v' r k hk, keys_cons, List.nodup_cons]
      refine ⟨?_, ih h.2⟩
      intro hm
      exact h.1 (keys_erase_subset r k k' hm).1

theorem nodup_keys_insert {κ ν : Type} [DecidableEq κ] (m : AMap κ ν) (k : κ) (v : ν) (h : m.keys.Nodup) :
    (m.insert k v).keys.Nodup := by
  have h1 : (m.insert k v).keys = k :: (m.erase k).keys := rfl
  rw [h1, List.nodup_cons]
  exact ⟨fun hm => (keys_erase_subset m k k hm).2 rfl, nodup_keys_erase m k h⟩

theorem get?_of_mem_nodup {κ ν : Type} [DecidableEq κ] (m : List (κ × ν)) (k : κ) (v : ν) (hm : (k, v) ∈ m)
    (h : (AMap.keys (m : AMap κ ν)).Nodup) : AMap.get? (m : AMap κ ν) k = some v := by
  induction m with
  | nil => simp at hm
  | cons p r ih =>
    obtain ⟨k', v'⟩ := p
    simp only [AMap.keys, List.map_cons, List.nodup_cons] at h
    simp only [List.mem_cons, Prod.mk.injEq] at hm
    rcases hm with ⟨h1, h2⟩ | hm
    · subst h1; subst h2; simp [AMap.get?]
    · by_cases hk : k' = k
      · exfalso; subst hk
        exact h.1 (List.mem_map.mpr ⟨(k', v), hm, rfl⟩)
      · simp only [AMap.get?, hk, if_false]; exact ih hm h.2

def NodupKeys (m : Meta.ClusterState) : Prop := (AMap.keys m.topics).Nodup

theorem nodupKeys_applyCmd (m : Meta.ClusterState) (c : Meta.Cmd) (h : NodupKeys m) : NodupKeys (Meta.applyCmd m c).1 := by
  unfold NodupKeys at *
  cases c with
  | createTopic name leader =>
    simp only [Meta.applyCmd]
    split
    · exact h
    · exact nodup_keys_insert _ _ _ h
  | rolloverTopic name nl cnt =>
    simp only [Meta.applyCmd]
    split
    · exact h
    · split
      · exact nodup_keys_insert _ _ _ h
      · exact h
  | upsertNode id addr => exact h

/-- a leased key that comes from the metadata is a segment the metadata has open and assigns to the node -/
theorem ownsOpen_of_mem_ownedKeys (m : Meta.ClusterState) (n : Nat) (k : Key) (hn : NodupKeys m) (h : k ∈ ownedKeys m n) :
    ownsOpen m n k = true := by
  unfold ownedKeys at h
  rw [List.mem_map] at h
  obtain ⟨⟨name, ts⟩, hf, hk⟩ := h
  obtain ⟨hmem, hl⟩ := List.mem_filter.mp hf
  subst hk
  unfold ownsOpen
  simp only
  rw [get?_of_mem_nodup m.topics name ts hmem hn]
  simpa using hl

/-! ### the lease invariant -/

/-- per node: the metadata has one entry per topic; and a lease set that was refreshed at the current applied index is
exactly what that metadata prescribes -/
def NodeOk (s : NodeSt) (n : Nat) : Prop :=
  NodupKeys s.md ∧ s.leaseApplied ≤ s.applied ∧ (s.leaseApplied = s.applied → s.leases = ownedKeys s.md n)

theorem nodeOk_coreStep (s s' : NodeSt) (n : Nat) (hs : NodeOk s n) (h : CoreStep s s' n) : NodeOk s' n := by
  rcases h with h | h
  · simp only [core, Prod.mk.injEq] at h
    obtain ⟨h1, h2, h3, h4⟩ := h
    unfold NodeOk at *
    rw [h1, h2, h3, h4]; exact hs
  · simp only [core, updateLeases, Prod.mk.injEq] at h
    obtain ⟨h1, h2, h3, h4⟩ := h
    unfold NodeOk at *
    rw [h1, h2, h3, h4]
    exact ⟨hs.1, Nat.le_refl _, fun _ => rfl⟩

def LeaseInv (w : World) : Prop := ∀ n, NodeOk (w.node n) n

theorem leaseInv_step (w : World) (tid : Nat) (h : LeaseInv w) : LeaseInv (stepTask w tid).1 :=
  fun n => nodeOk_coreStep _ _ n (h n) (stepTask_core w tid n)

theorem leaseInv_applyNext (w : World) (n : Nat) (h : LeaseInv w) : LeaseInv (applyNext w n).1 := by
  unfold applyNext
  simp only
  split
  · exact h
  · rename_i c _
    intro m
    rw [node_setNode]
    by_cases hm : n = m
    · subst hm
      simp only [if_true]
      obtain ⟨h1, h2, _⟩ := h n
      exact ⟨nodupKeys_applyCmd _ _ h1, Nat.le_succ_of_le h2, fun he => by simp only at he; omega⟩
    · simp only [hm, if_false]; exact h m

theorem leaseInv_act (w : World) (a : Act) (h : LeaseInv w) : LeaseInv (act w a) := by
  cases a with
  | step tid => exact leaseInv_step w tid h
  | apply n => exact leaseInv_applyNext w n h
  | sync n =>
    intro m
    show NodeOk ((w.setNode n (updateLeases (w.node n) n)).node m) m
    exact nodeOk_coreStep _ _ m (h m) (core_setNode_refresh w n m)
  | spawn tid t => exact h

theorem leaseInv_runActs (w : World) (as : List Act) (h : LeaseInv w) : LeaseInv (runActs w as) := by
  induction as generalizing w with
  | nil => exact h
  | cons a r ih => exact ih _ (leaseInv_act w a h)

theorem leaseInv_applyAllOn (w : World) (n fuel : Nat) (h : LeaseInv w) : LeaseInv (applyAllOn w n fuel) := by
  induction fuel generalizing w with
  | zero => exact h
  | succ k ih =>
    unfold applyAllOn
    have := leaseInv_applyNext w n h
    split
    · rename_i w' _ heq
      rw [heq] at this
      exact ih _ this
    · rename_i w' heq
      rw [heq] at this
      exact this

theorem leaseInv_applyAll (w : World) (h : LeaseInv w) : LeaseInv (applyAll w) := by
  unfold applyAll
  have : ∀ (l : List Nat) (w : World), LeaseInv w →
      LeaseInv (l.foldl (fun w n => applyAllOn w n (w.log.length + 1)) w) := by
    intro l
    induction l with
    | nil => intro w h; exact h
    | cons a r ih => intro w h; exact ih _ (leaseInv_applyAllOn w a _ h)
  exact this _ w h

theorem nodeOk_default (n : Nat) : NodeOk {} n := by
  refine ⟨?_, Nat.le_refl _, fun _ => rfl⟩
  simp [NodupKeys, Meta.ClusterState.init, AMap.empty, AMap.keys]

theorem node_of_blank (ids : List Nat) (m : Nat) :
    ((ids.foldl (fun (mp : AMap Nat NodeSt) i => mp.insert i {}) AMap.empty).get? m).getD {} = ({} : NodeSt) := by
  have : ∀ (mp : AMap Nat NodeSt), (mp.get? m).getD {} = ({} : NodeSt) →
      ((ids.foldl (fun (mp : AMap Nat NodeSt) i => mp.insert i {}) mp).get? m).getD {} = ({} : NodeSt) := by
    induction ids with
    | nil => intro mp h; exact h
    | cons a r ih =>
      intro mp h
      apply ih
      rw [AMap.get?_insert]
      by_cases ha : a = m <;> simp [ha, h]
  exact this _ rfl

theorem leaseInv_initWorld (n thresh : Nat) : LeaseInv (initWorld n thresh) := by
  unfold initWorld
  apply leaseInv_applyAll
  intro m
  unfold World.node
  simp only
  rw [node_of_blank]
  exact nodeOk_default m

theorem leaseInv_createTopic (w : World) (name : Name) (l : Nat) (h : LeaseInv w) : LeaseInv (createTopic w name l) := by
  unfold createTopic
  apply leaseInv_applyAll
  exact h

/-! ### writes -/

theorem finish_writes (w : World) (tid : Nat) (r : Res) : (finish w tid r).1.writes = w.writes := rfl

theorem monLoop_writes (w : World) (tid n : Nat) (l : List (Name × Nat)) : (monLoop w tid n l).1.writes = w.writes := by
  induction l generalizing w with
  | nil => rfl
  | cons p r ih =>
    obtain ⟨topic, seg⟩ := p
    unfold monLoop
    simp only
    split
    · exact ih w
    · rfl

theorem getLoop_writes (w : World) (tid n : Nat) (topic : Name) (seg del : Nat) :
    (getLoop w tid n topic seg del).1.writes = w.writes := by
  unfold getLoop
  simp only
  split
  · rfl
  · split <;> rfl

/-- the write event a task at `locked` produces -/
def writeEvOf (w : World) (c : PutCtx) : WriteEv :=
  let s := w.node c.e
  ⟨c.e, c.key, c.payload, ownsOpen s.md c.e c.key, decide (s.leaseApplied = s.applied) && s.leases.contains c.key⟩

theorem stepTask_writes (w : World) (tid : Nat) :
    (stepTask w tid).1.writes = w.writes ∨
    ∃ c, w.tasks.get? tid = some (.putLocked c) ∧ (stepTask w tid).1.writes = w.writes ++ [writeEvOf w c] := by
  unfold stepTask
  split
  · exact Or.inl rfl
  · exact Or.inl rfl
  · split
    · exact Or.inl rfl
    · simp only; split <;> exact Or.inl rfl
  · simp only; split
    · exact Or.inl rfl
    · split <;> exact Or.inl rfl
  · simp only; split <;> exact Or.inl rfl
  · rename_i c hc
    exact Or.inr ⟨c, hc, rfl⟩
  · exact Or.inl rfl
  · exact Or.inl rfl
  · split <;> exact Or.inl rfl
  · split <;> exact Or.inl rfl
  · simp only; split
    · exact Or.inl rfl
    · exact Or.inl (by rw [getLoop_writes]; rfl)
  · simp only; split
    · exact Or.inl rfl
    · split
      · exact Or.inl rfl
      · split
        · exact Or.inl (getLoop_writes _ _ _ _ _ _)
        · exact Or.inl rfl
  · exact Or.inl rfl
  · exact Or.inl (monLoop_writes _ _ _ _)
  · split
    · exact Or.inl (monLoop_writes _ _ _ _)
    · exact Or.inl rfl

/-- every write made under a current lease set is a write into a segment the node's applied metadata has open and
assigns to it -/
def WritesOk (w : World) : Prop := ∀ ev ∈ w.writes, ev.leasesCurrent = true → ev.ownedAtWrite = true

theorem writeEvOf_ok (w : World) (c : PutCtx) (h : LeaseInv w) :
    (writeEvOf w c).leasesCurrent = true → (writeEvOf w c).ownedAtWrite = true := by
  intro hc
  simp only [writeEvOf, Bool.and_eq_true, decide_eq_true_eq] at hc
  obtain ⟨hf, hm⟩ := hc
  obtain ⟨h1, _, h3⟩ := h c.e
  have hmem : c.key ∈ (w.node c.e).leases := by simpa using hm
  rw [h3 hf] at hmem
  exact ownsOpen_of_mem_ownedKeys _ _ _ h1 hmem

theorem writesOk_step (w : World) (tid : Nat) (hi : LeaseInv w) (h : WritesOk w) : WritesOk (stepTask w tid).1 := by
  rcases stepTask_writes w tid with hw | ⟨c, _, hw⟩
  · unfold WritesOk; rw [hw]; exact h
  · unfold WritesOk; rw [hw]
    intro ev hev
    rw [List.mem_append] at hev
    rcases hev with hev | hev
    · exact h ev hev
    · simp only [List.mem_singleton] at hev
      subst hev
      exact writeEvOf_ok w c hi

theorem applyNext_writes (w : World) (n : Nat) : (applyNext w n).1.writes = w.writes := by
  unfold applyNext; simp only; split <;> rfl

theorem writesOk_act (w : World) (a : Act) (hi : LeaseInv w) (h : WritesOk w) : WritesOk (act w a) := by
  cases a with
  | step tid => exact writesOk_step w tid hi h
  | apply n => unfold WritesOk; show ∀ ev ∈ (applyNext w n).1.writes, _; rw [applyNext_writes]; exact h
  | sync n => exact h
  | spawn tid t => exact h

theorem writesOk_runActs (w : World) (as : List Act) (hi : LeaseInv w) (h : WritesOk w) : WritesOk (runActs w as) := by
  induction as generalizing w with
  | nil => exact h
  | cons a r ih => exact ih _ (leaseInv_act w a hi) (writesOk_act w a hi h)
