import WalrusVerif.Lemmas.AEngReopen
/-! The refinement induction of `AEngStep.lean` over histories that contain restart events. -/
namespace WalrusVerif.AEng
open WalrusVerif WalrusVerif.Eng

/-- every history with restart events is accepted by the specification (same induction as
`runFrom_accepts`, with the restart case added) -/
theorem runFromR_accepts (c : Cfg) (hc : CfgOK c) :
    ∀ (ops : List ROp) (s : AState) (K : Topic → Nat), SInv c s K → (∀ op ∈ ops, op.WithinLimits c) →
      acceptsR (specOf s K) (ops.zip (runFromR c s ops)) := by
  intro ops
  induction ops with
  | nil => intro s K _ _; simp [runFromR, acceptsR]
  | cons op rest ih =>
    intro s K h hl
    have hop := hl op (by simp)
    have hrest : ∀ o ∈ rest, o.WithinLimits c := fun o ho => hl o (by simp [ho])
    have hT := h.topic
    simp only [runFromR, List.zip_cons_cons]
    cases op with
    | restart =>
      have hstep : stepR c s .restart = (reopen c s, .ok) := rfl
      rw [hstep]
      simp only [acceptsR]
      have := ih _ _ (sinv_reopen c s K h) hrest
      rw [specOf_reopen c s K h] at this
      exact this
    | op op =>
    cases op with
    | append t p =>
      have hlim : raw c p ≤ c.maxAlloc := hop
      obtain ⟨he1, hn1, hw1, hlog1, hc1⟩ := tinv_ensureWriter c s.nextId (s.topic t) (K t) (hT t)
      rcases hew : ensureWriter c s.nextId (s.topic t) with ⟨nid, a1, w⟩
      rw [hew] at he1 hn1 hw1 hlog1 hc1
      simp only at he1 hn1 hw1 hlog1 hc1
      obtain ⟨hi2, hn2, hc2, hok, herr⟩ := write_spec c hc.meta_pos nid a1 (K t) he1 w hw1 t.long p hlim
      rcases hwr : write c nid a1 w t.long p with ⟨nid', a2, r⟩
      rw [hwr] at hi2 hn2 hc2 hok herr
      simp only at hi2 hn2 hc2 hok herr
      cases r with
      | some e =>
        have hstep : stepR c s (.op (.append t p)) = ({ nextId := nid', topics := s.topics.insert t a2 }, .err e) := by
          simp only [stepR, step, hew, hwr]
        rw [hstep]
        simp only [acceptsR]
        have hlog2 : log a2 = log (s.topic t) := by rw [herr (by simp), hlog1]
        have hs' := sinv_update c s K h t a2 nid' (K t) (Nat.le_trans hn1 hn2) hi2
          (by rw [hc2, hc1, hlog2]; exact h.count t)
        have := ih _ _ hs' hrest
        rw [specOf_same s K t a2 nid' hlog2] at this
        exact this
      | none =>
        have hstep : stepR c s (.op (.append t p)) =
            ({ nextId := nid', topics := s.topics.insert t { a2 with count := a2.count + 1 } }, .ok) := by
          simp only [stepR, step, hew, hwr]
        rw [hstep]
        simp only [acceptsR]
        have hlog2 : log a2 = log (s.topic t) ++ [p] := by rw [hok rfl, hlog1]
        have hkle := (hT t).k_le
        have hs' := sinv_update c s K h t { a2 with count := a2.count + 1 } nid' (K t) (Nat.le_trans hn1 hn2)
          (tinv_count_irrel c nid' a2 (K t) _ hi2)
          (by
            show a2.count + 1 = (log a2).length - K t
            rw [hc2, hc1, hlog2, h.count t]; simp; omega)
        have := ih _ _ hs' hrest
        rw [specOf_update_log] at this
        rw [upd_self K t] at this
        have hl3 : log { a2 with count := a2.count + 1 } = (specOf s K).log t ++ [p] := hlog2
        rw [hl3] at this
        exact this
    | batch t ps =>
      have hlim : ∀ p ∈ ps, raw c p ≤ c.maxAlloc := hop
      obtain ⟨he1, hn1, hw1, hlog1, hc1⟩ := tinv_ensureWriter c s.nextId (s.topic t) (K t) (hT t)
      rcases hew : ensureWriter c s.nextId (s.topic t) with ⟨nid, a1, w⟩
      rw [hew] at he1 hn1 hw1 hlog1 hc1
      simp only at he1 hn1 hw1 hlog1 hc1
      obtain ⟨hi2, hn2, hc2, hok, herr⟩ := batchWrite_spec c hc.bs_le hc.bs_pos nid a1 (K t) he1 w hw1 t.long ps hlim
      rcases hwr : batchWrite c nid a1 w t.long ps with ⟨nid', a2, r⟩
      rw [hwr] at hi2 hn2 hc2 hok herr
      simp only at hi2 hn2 hc2 hok herr
      cases r with
      | some e =>
        have hstep : stepR c s (.op (.batch t ps)) = ({ nextId := nid', topics := s.topics.insert t a2 }, .err e) := by
          simp only [stepR, step, hew, hwr]
        rw [hstep]
        simp only [acceptsR]
        have hlog2 : log a2 = log (s.topic t) := by rw [herr (by simp), hlog1]
        have hs' := sinv_update c s K h t a2 nid' (K t) (Nat.le_trans hn1 hn2) hi2
          (by rw [hc2, hc1, hlog2]; exact h.count t)
        have := ih _ _ hs' hrest
        rw [specOf_same s K t a2 nid' hlog2] at this
        exact this
      | none =>
        have hstep : stepR c s (.op (.batch t ps)) =
            ({ nextId := nid', topics := s.topics.insert t { a2 with count := a2.count + ps.length } }, .ok) := by
          simp only [stepR, step, hew, hwr]
        rw [hstep]
        simp only [acceptsR]
        have hlog2 : log a2 = log (s.topic t) ++ ps := by rw [hok rfl, hlog1]
        have hkle := (hT t).k_le
        have hs' := sinv_update c s K h t { a2 with count := a2.count + ps.length } nid' (K t) (Nat.le_trans hn1 hn2)
          (tinv_count_irrel c nid' a2 (K t) _ hi2)
          (by
            show a2.count + ps.length = (log a2).length - K t
            rw [hc2, hc1, hlog2, h.count t]; simp; omega)
        have := ih _ _ hs' hrest
        rw [specOf_update_log] at this
        rw [upd_self K t] at this
        have hl3 : log { a2 with count := a2.count + ps.length } = (specOf s K).log t ++ ps := hlog2
        rw [hl3] at this
        exact this
    | next t cp =>
      obtain ⟨hr, hlog, hcnt, hinv⟩ := readNext_spec c hc.meta_pos cp s.nextId (s.topic t) (K t) (hT t)
      rcases hrn : readNext c (s.topic t) cp with ⟨a', r⟩
      rw [hrn] at hr hlog hcnt hinv
      simp only at hr hlog hcnt hinv
      have hstep : stepR c s (.op (.next t cp)) = (s.put t a', .entry r) := by simp only [stepR, step, hrn]
      rw [hstep]
      simp only [acceptsR]
      refine ⟨hr, ?_⟩
      have hkle := (hT t).k_le
      by_cases hcs : cp = true ∧ r.isSome
      · have hcs' : cp = true ∧ ((log (s.topic t))[K t]?).isSome := by rw [← hr]; exact hcs
        simp only [hcs', and_self, if_true] at hinv hcnt
        have hlt : K t < (log (s.topic t)).length := by
          have := hcs'.2
          rcases hx : (log (s.topic t))[K t]? with _ | x
          · rw [hx] at this; cases this
          · exact getElem?_lt_length _ _ _ hx
        have hs' := sinv_update c s K h t a' s.nextId (K t + 1) (Nat.le_refl _) hinv
          (by rw [hcnt, hlog, h.count t]; omega)
        have := ih _ _ hs' hrest
        rw [specOf_update_log, hlog] at this
        have e1 : upd (specOf s K).log t (log (s.topic t)) = (specOf s K).log := upd_self _ t
        rw [e1] at this
        simp only [hcs, and_self, if_true]
        exact this
      · have hcs' : ¬ (cp = true ∧ ((log (s.topic t))[K t]?).isSome) := by rw [← hr]; exact hcs
        simp only [hcs', if_false] at hinv hcnt
        have hs' := sinv_update c s K h t a' s.nextId (K t) (Nat.le_refl _) hinv
          (by rw [hcnt, hlog]; exact h.count t)
        have := ih _ _ hs' hrest
        rw [specOf_same s K t a' s.nextId hlog] at this
        simp only [hcs, if_false]
        exact this
    | bread t m cp start =>
      cases start with
      | some req =>
        have hstep : stepR c s (.op (.bread t m cp (some req))) = (s, .entries (batchReadAt c (s.topic t) m req)) := rfl
        rw [hstep]
        simp only [acceptsR]
        exact ih s K h hrest
      | none =>
        obtain ⟨mm, hes, hmle, hlog, hcnt, hinv⟩ := batchRead_spec c hc.meta_pos s.nextId (s.topic t) (K t) (hT t) m cp
        rcases hbr : batchRead c (s.topic t) m cp with ⟨a', es⟩
        rw [hbr] at hes hlog hcnt hinv
        simp only at hes hlog hcnt hinv
        have hstep : stepR c s (.op (.bread t m cp none)) = (s.put t a', .entries es) := by simp only [stepR, step, hbr]
        rw [hstep]
        simp only [acceptsR]
        have hlen : es.length = mm := by
          rw [hes, List.length_map]; exact take_drop_length _ _ _ hmle
        refine ⟨⟨mm, hes, hmle, ?_⟩, ?_⟩
        · intro hpend
          have hlt : K t < (log (s.topic t)).length := by
            rcases Nat.lt_or_ge (K t) (log (s.topic t)).length with h1 | h1
            · exact h1
            · exfalso; apply hpend
              show List.drop (K t) (log (s.topic t)) = []
              exact List.drop_eq_nil_of_le h1
          have hx : (log (s.topic t))[K t]? = some (log (s.topic t))[K t] := List.getElem?_eq_getElem hlt
          have := batchRead_progress c hc.meta_pos hc.cap_pos s.nextId (s.topic t) (K t) (hT t) m cp _ hx
          rw [hbr] at this
          simp only at this
          omega
        · cases cp with
          | true =>
            simp only [if_true] at hinv hcnt ⊢
            have hs' := sinv_update c s K h t a' s.nextId (K t + mm) (Nat.le_refl _) hinv
              (by rw [hcnt, hlog, h.count t]; omega)
            have := ih _ _ hs' hrest
            rw [specOf_update_log, hlog] at this
            have e1 : upd (specOf s K).log t (log (s.topic t)) = (specOf s K).log := upd_self _ t
            rw [e1] at this
            rw [hlen]
            exact this
          | false =>
            simp only [Bool.false_eq_true, if_false] at hinv hcnt ⊢
            have hs' := sinv_update c s K h t a' s.nextId (K t) (Nat.le_refl _) hinv
              (by rw [hcnt, hlog]; exact h.count t)
            have := ih _ _ hs' hrest
            rw [specOf_same s K t a' s.nextId hlog] at this
            exact this
    | count t =>
      have hstep : stepR c s (.op (.count t)) = (s, .num (s.topic t).count) := rfl
      rw [hstep]
      simp only [acceptsR]
      exact ⟨h.count t, ih s K h hrest⟩


end WalrusVerif.AEng
