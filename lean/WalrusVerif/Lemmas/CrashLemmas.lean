import WalrusVerif.Model.Quirks
import WalrusVerif.Lemmas.EngFrame
/-! Frame facts used by the crash properties: the read path never writes to a WAL file. -/
namespace WalrusVerif.Eng
open WalrusVerif

theorem files_readNextLoop (c : Cfg) (t : Topic) (cp : Bool) (fuel : Nat) (p : Proc) (i : Inst) (info : ColInfo) :
    (readNextLoop c t cp fuel p i info).1.files = p.files := by
  induction fuel generalizing p i info with
  | zero => rfl
  | succ n ih =>
    unfold readNextLoop
    split
    · split
      · rw [ih]
      · split
        · split
          · rfl
          · rfl
        · rfl
    · split
      · rfl
      · rename_i w hw
        simp only
        by_cases hcp : cp = true <;> by_cases hin : info.tailId = w.blk.id <;>
          simp only [hcp, hin, if_false, if_true, true_and, false_and, not_true_eq_false, not_false_eq_true,
            Bool.false_eq_true] <;>
          (repeat' split) <;> rfl

theorem files_readNext (c : Cfg) (p : Proc) (i : Inst) (t : Topic) (cp : Bool) :
    (readNext c p i t cp).1.files = p.files := by
  unfold readNext; exact files_readNextLoop ..

theorem files_batchRead (c : Cfg) (p : Proc) (i : Inst) (t : Topic) (m : Nat) (cp : Bool) (st : Option Nat) :
    (batchRead c p i t m cp st).1.files = p.files := by
  unfold batchRead
  cases st with
  | some r => simp only; split <;> rfl
  | none =>
    simp only
    have h : (statefulPlan c p i t m cp).p.files = p.files := by unfold statefulPlan; rfl
    split <;> exact h

theorem files_dieWith (p : Proc) (idx : AMap Topic Pos) : (dieWith p idx).files = p.files := by
  unfold dieWith; split <;> rfl

@[simp] theorem idxLog_putReader (i : Inst) (t : Topic) (x : ColInfo) : (putReader i t x).idxLog = i.idxLog := rfl
@[simp] theorem idxLog_decCount (i : Inst) (t : Topic) (d : Nat) : (decCount i t d).idxLog = i.idxLog := by
  unfold decCount; split <;> rfl
@[simp] theorem idxLog_setIndex (i : Inst) (t : Topic) (x : Pos) : (setIndex i t x).idxLog = i.idxLog ++ [(t, x)] := rfl

/-- the index persists of one `read_next`: at most two, all for the topic being read -/
def OwnPersists (t : Topic) (before after : List (Topic × Pos)) : Prop :=
  ∃ l, after = before ++ l ∧ l.length ≤ 2 ∧ ∀ x ∈ l, x.1 = t

theorem own_refl (t : Topic) (l : List (Topic × Pos)) : OwnPersists t l l := ⟨[], by simp, by simp, by simp⟩
theorem own_one (t : Topic) (l : List (Topic × Pos)) (x : Pos) : OwnPersists t l (l ++ [(t, x)]) :=
  ⟨[(t, x)], rfl, by simp, by simp⟩
theorem own_two (t : Topic) (l : List (Topic × Pos)) (x y : Pos) : OwnPersists t l (l ++ [(t, x), (t, y)]) :=
  ⟨[(t, x), (t, y)], by simp, by simp, by simp⟩

theorem idxLog_readNextLoop (c : Cfg) (t : Topic) (cp : Bool) (fuel : Nat) (p : Proc) (i : Inst) (info : ColInfo) :
    OwnPersists t i.idxLog (readNextLoop c t cp fuel p i info).2.1.idxLog := by
  induction fuel generalizing p i info with
  | zero => exact own_refl ..
  | succ n ih =>
    unfold readNextLoop
    split
    · split
      · exact ih _ _ _
      · split
        · split
          · simp only
            generalize shouldPersist i.mode _ false = sp
            obtain ⟨info', persist⟩ := sp
            cases persist
            · simp; exact own_refl ..
            · simp; exact own_one ..
          · exact own_refl ..
        · exact own_refl ..
    · split
      · exact own_refl ..
      · rename_i w hw
        simp only
        by_cases hcp : cp = true <;> by_cases hin : info.tailId = w.blk.id <;>
          simp only [hcp, hin, if_false, if_true, true_and, false_and, not_true_eq_false, not_false_eq_true,
            Bool.false_eq_true] <;>
          (repeat' split) <;> simp <;>
          first | exact own_refl .. | exact own_one .. | exact own_two ..

theorem idxLog_readNext (c : Cfg) (p : Proc) (i : Inst) (t : Topic) (cp : Bool) :
    OwnPersists t i.idxLog (readNext c p i t cp).2.1.idxLog := by
  unfold readNext; exact idxLog_readNextLoop ..

/-- `p'` has the files of `p`, untouched, plus possibly new empty files -/
def FilesExt (p p' : Proc) : Prop := ∃ extra : List FileSt, p'.files = p.files ++ extra ∧ ∀ fs ∈ extra, fs.cells = []

theorem filesExt_refl (p : Proc) : FilesExt p p := ⟨[], by simp, by simp⟩
theorem filesExt_of_eq (p p' : Proc) (h : p'.files = p.files) : FilesExt p p' := ⟨[], by simp [h], by simp⟩
theorem filesExt_trans {a b c : Proc} (h1 : FilesExt a b) (h2 : FilesExt b c) : FilesExt a c := by
  obtain ⟨e1, h1, g1⟩ := h1
  obtain ⟨e2, h2, g2⟩ := h2
  refine ⟨e1 ++ e2, by rw [h2, h1, List.append_assoc], ?_⟩
  intro fs hfs
  rcases List.mem_append.mp hfs with h | h
  · exact g1 fs h
  · exact g2 fs h

theorem filesExt_createFile (p : Proc) (d : Nat) : FilesExt p (p.createFile d).1 :=
  ⟨[{ dir := d, name := p.freeName d (p.files.length + 1) p.nextName, cells := [], present := true }], rfl, by simp⟩

theorem filesExt_getNextAvailableBlock (c : Cfg) (p : Proc) (i : Inst) : FilesExt p (getNextAvailableBlock c p i).1 := by
  unfold getNextAvailableBlock
  by_cases h : i.allocOff ≥ c.fileSize
  · simp only [h, if_true]
    exact filesExt_createFile { p with trk := p.trk.setFullyAllocated i.allocFile } i.dir
  · simp only [h, if_false]
    exact filesExt_of_eq _ _ rfl

theorem filesExt_allocBlock (c : Cfg) (p : Proc) (i : Inst) (want : Nat) (r : Proc × Inst × Blk)
    (h : allocBlock c p i want = some r) : FilesExt p r.1 := by
  unfold allocBlock at h
  split at h
  · cases h
  · by_cases h2 : i.allocOff + (want + c.blockSize - 1) / c.blockSize * c.blockSize > c.fileSize
    · simp only [h2, if_true] at h
      injection h with h; subst h
      exact filesExt_createFile p i.dir
    · simp only [h2, if_false] at h
      injection h with h; subst h
      exact filesExt_of_eq _ _ rfl

theorem filesExt_getOrCreateWriter (c : Cfg) (p : Proc) (i : Inst) (t : Topic) : FilesExt p (getOrCreateWriter c p i t).1 := by
  unfold getOrCreateWriter
  split
  · exact filesExt_refl p
  · exact filesExt_getNextAvailableBlock c p i

/-- a single append whose entry write fails / is never reached writes no entry -/
theorem filesExt_writerWriteCore_fault (c : Cfg) (p : Proc) (i : Inst) (t : Topic) (w : Writer) (pay : Pay) :
    FilesExt p (writerWriteCore c p i t w pay (some ⟨0, 0⟩)).1 := by
  unfold writerWriteCore
  by_cases hb : w.batching = true
  · simp only [hb, if_true]; exact filesExt_refl p
  · simp only [hb, if_false, Bool.false_eq_true]
    by_cases hr : w.off + (c.metaSz + pay.len) > w.blk.limit
    · simp only [hr, if_true]
      have hs : FilesExt p (sealBlock p i t w.blk w.off).1 := filesExt_of_eq _ _ rfl
      generalize sealBlock p i t w.blk w.off = sb at hs ⊢
      obtain ⟨p1, i1⟩ := sb
      simp only at hs ⊢
      cases ha : allocBlock c p1 i1 (c.metaSz + pay.len) with
      | none => simpa using hs
      | some r =>
        obtain ⟨p2, i2, nb⟩ := r
        have h2 := filesExt_allocBlock c p1 i1 _ _ ha
        simp only at h2 ⊢
        exact filesExt_trans hs h2
    · simp only [hr, if_false]
      exact filesExt_refl p

theorem filesExt_writerWrite_fault (c : Cfg) (p : Proc) (i : Inst) (t : Topic) (w : Writer) (pay : Pay) :
    FilesExt p (writerWrite c p i t w pay (some ⟨0, 0⟩)).1 := by
  unfold writerWrite
  split
  · exact filesExt_refl p
  · exact filesExt_writerWriteCore_fault c p i t w pay

theorem filesExt_appendForTopic_fault (c : Cfg) (p : Proc) (i : Inst) (t : Topic) (pay : Pay) :
    FilesExt p (appendForTopic c p i t pay (some ⟨0, 0⟩)).1 := by
  unfold appendForTopic
  simp only
  have h1 := filesExt_getOrCreateWriter c p (markClean i t false) t
  generalize getOrCreateWriter c p (markClean i t false) t = g at h1 ⊢
  obtain ⟨p1, i1, w⟩ := g
  have h2 := filesExt_writerWrite_fault c p1 i1 t w pay
  generalize writerWrite c p1 i1 t w pay (some ⟨0, 0⟩) = r at h2 ⊢
  obtain ⟨p2, i2, eo⟩ := r
  simp only at h1 h2 ⊢
  cases eo <;> exact filesExt_trans h1 h2

theorem appendForTopic_ne_crashed (c : Cfg) (p : Proc) (i : Inst) (t : Topic) (pay : Pay) (flt : Option Fault) :
    (appendForTopic c p i t pay flt).2.2 ≠ .crashed := by
  unfold appendForTopic
  simp only
  generalize getOrCreateWriter c p (markClean i t false) t = g
  obtain ⟨p1, i1, w⟩ := g
  generalize writerWrite c p1 i1 t w pay flt = r
  obtain ⟨a, b, o⟩ := r
  cases o <;> simp

end WalrusVerif.Eng
