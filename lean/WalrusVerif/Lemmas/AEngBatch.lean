import WalrusVerif.Lemmas.AEngPlan
/-! Cursor-based batch read of the entry-level model: returns a prefix of the unconsumed log and
moves the cursor by exactly what it returned. -/
namespace WalrusVerif.AEng
open WalrusVerif WalrusVerif.Eng

theorem tinv_count_irrel (c : Cfg) (n : Nat) (a : ATopic) (k x : Nat) (h : TInv c n a k) :
    TInv c n { a with count := x } k :=
  ⟨h.idx_le, h.sealedPos, h.tailOff0, h.tailPos, h.sealedNotTail, h.tailIdLt, h.writerIdLt, h.noWriterNoChain, h.k_le⟩

theorem log_count_irrel (a : ATopic) (x : Nat) : log { a with count := x } = log a := rfl

/-- the tail range of a plan -/
def tailRange (c : Cfg) (w : ABlk) (start : Nat) : ARange :=
  { es := w.es, start := start, stop := w.used c, isTail := true, chainIdx := 0, blkId := w.id }

theorem good_tail (c : Cfg) (a : ATopic) (w : ABlk) (hw : a.writer = some w) (j : Nat) (hj : j ≤ w.es.length) :
    Good c a ((chainEs a.chain).length + j) [tailRange c w (bytes c (w.es.take j))] := by
  refine Good.cons _ _ [] (chainEs a.chain).length j ?_ rfl (fun h => absurd rfl h) (Good.nil _)
  refine ⟨hj, rfl, Nat.le_refl _, ?_, ?_⟩
  · intro j' e he
    rw [log_getElem_tail a w hw j']; exact he
  · show if true = true then _ else _
    simp only [if_true]
    refine ⟨w, hw, ?_, ?_, ?_⟩ <;> simp [tailRange]

theorem statefulPlan_good (c : Cfg) (hm : 0 < c.metaSz) (n : Nat) (a : ATopic) (k : Nat) (h : TInv c n a k)
    (maxB : Nat) : Good c a k (statefulPlan c a maxB) := by
  unfold statefulPlan
  rcases Nat.lt_or_ge a.curIdx a.chain.length with hlt | hge
  · -- cursor inside the sealed chain
    have hp : PosDen c a a.curIdx a.curOff k :=
      ⟨h.idx_le, h.sealedPos, fun he => by omega⟩
    obtain ⟨news, hplan, hgood⟩ := planLoop_good c hm a maxB (a.chain.length + 1)
      { curIdx := a.curIdx, curOff := a.curOff, planned := 0, hint := 0, plan := [] } k (Nat.le_refl _) hp
    simp only [List.nil_append] at hplan
    simp only
    split
    · rename_i hend
      cases hw : a.writer with
      | none =>
        simp only
        rw [hplan]
        have := hgood [] (fun _ => rfl) (fun _ => Good.nil _)
        simpa using this
      | some w =>
        simp only
        have hne : a.tailId ≠ w.id := h.sealedNotTail hlt w hw
        simp only [hne, if_false]
        split
        · rw [hplan]
          apply hgood
          · intro hl; omega
          · intro _
            have := good_tail c a w hw 0 (Nat.zero_le _)
            simpa [tailRange] using this
        · rw [hplan]
          have := hgood [] (fun _ => rfl) (fun _ => Good.nil _)
          simpa using this
    · rename_i hend
      rw [hplan]
      have := hgood [] (fun _ => rfl) (fun hx => absurd hx hend)
      simpa using this
  · -- cursor at the end of the chain: only the tail can be planned
    have hidx : a.curIdx = a.chain.length := Nat.le_antisymm h.idx_le hge
    have hnone : a.chain[a.curIdx]? = none := by rw [hidx]; simp
    have hstep : planLoop c a.chain maxB false (a.chain.length + 1)
        { curIdx := a.curIdx, curOff := a.curOff, planned := 0, hint := 0, plan := [] } =
        { curIdx := a.curIdx, curOff := a.curOff, planned := 0, hint := 0, plan := [] } := by
      rw [planLoop]; simp only [hnone]
    rw [hstep]
    simp only [hge, ge_iff_le, if_true]
    have htp := h.tailPos hidx
    cases hw : a.writer with
    | none => exact Good.nil _
    | some w =>
      rw [hw] at htp
      simp only
      by_cases ht : a.tailId = w.id
      · simp only [ht, if_true] at htp ⊢
        obtain ⟨j, hj, ho, hk⟩ := htp
        split
        · rw [hk, ho]; exact good_tail c a w hw j hj
        · exact Good.nil _
      · simp only [ht, if_false] at htp ⊢
        split
        · have := good_tail c a w hw 0 (Nat.zero_le _)
          rw [htp]; simpa [tailRange] using this
        · exact Good.nil _

theorem psinv_init (c : Cfg) (a : ATopic) (k : Nat) (hk : k ≤ (log a).length) : PSInv c a k {} :=
  ⟨by simp, rfl, rfl, by simpa using hk, fun h => absurd h (Nat.lt_irrefl 0)⟩

theorem tinv_commit (c : Cfg) (n : Nat) (a : ATopic) (k : Nat) (h : TInv c n a k) (ps : APState)
    (hs : PSInv c a k ps) (hp : ps.parsed > 0) : TInv c n (commit a ps) (k + ps.parsed) := by
  have hpos := hs.pos hp
  unfold PosOK at hpos
  unfold commit
  cases hst : ps.sawTail with
  | true =>
    rw [hst] at hpos
    simp only [if_true] at hpos ⊢
    obtain ⟨w, j, hw, hid, hj, ho, hg⟩ := hpos
    refine ⟨Nat.le_refl _, ?_, fun _ => rfl, ?_, ?_, ?_, h.writerIdLt, h.noWriterNoChain, hs.inLog⟩
    · intro b hb
      have : a.chain[a.chain.length]? = some b := hb
      simp at this
    · intro _
      show match a.writer with
        | none => _
        | some w' => if ps.finalTailId = w'.id then ∃ j', j' ≤ w'.es.length ∧ ps.finalTailOff = bytes c (w'.es.take j') ∧
            k + ps.parsed = (chainEs a.chain).length + j' else _
      rw [hw]
      simp only [hid, if_true]
      exact ⟨j, hj, ho, hg⟩
    · intro hl
      have : a.chain.length < a.chain.length := hl
      omega
    · show ps.finalTailId < n
      rw [hid]; exact h.writerIdLt w hw
  | false =>
    rw [hst] at hpos
    simp only [Bool.false_eq_true, if_false] at hpos ⊢
    obtain ⟨b, j, hb, hcur, hj, ho, hg⟩ := hpos
    have hfl := getElem?_lt_length _ _ _ hb
    refine ⟨Nat.le_of_lt hfl, ?_, ?_, ?_, ?_, h.tailIdLt, h.writerIdLt, h.noWriterNoChain, hs.inLog⟩
    · intro b' hb'
      have hb2 : a.chain[ps.finalIdx]? = some b' := hb'
      rw [hb] at hb2; cases hb2
      exact ⟨j, hj, ho, hg⟩
    · intro he
      have : ps.finalIdx = a.chain.length := he
      omega
    · intro he
      have : ps.finalIdx = a.chain.length := he
      omega
    · intro _ w hw
      exact h.sealedNotTail (Nat.lt_of_le_of_lt hcur hfl) w hw

theorem commit_log (a : ATopic) (ps : APState) : log (commit a ps) = log a := by
  unfold commit; split <;> rfl

theorem commit_count (a : ATopic) (ps : APState) : (commit a ps).count = a.count := by
  unfold commit; split <;> rfl

theorem finishBatch_spec (c : Cfg) (n : Nat) (a : ATopic) (k : Nat) (h : TInv c n a k) (ps : APState)
    (hs : PSInv c a k ps) (cp : Bool) :
    log (finishBatch a ps cp) = log a ∧
      (finishBatch a ps cp).count = (if cp = true then a.count - ps.parsed else a.count) ∧
      TInv c n (finishBatch a ps cp) (if cp = true then k + ps.parsed else k) := by
  unfold finishBatch
  cases cp with
  | false => exact ⟨rfl, by simp, by simpa using h⟩
  | true =>
    simp only [if_true]
    by_cases hp : ps.parsed > 0
    · simp only [hp, if_true]
      exact ⟨by rw [log_count_irrel, commit_log], by simp [commit_count],
        tinv_count_irrel c n _ _ _ (tinv_commit c n a k h ps hs hp)⟩
    · simp only [hp, if_false]
      have h0 : ps.parsed = 0 := by omega
      exact ⟨by simp [log_count_irrel], by simp, by rw [h0]; exact tinv_count_irrel c n _ _ _ h⟩

/-- cursor-based batch read, under the invariant -/
theorem batchRead_spec (c : Cfg) (hm : 0 < c.metaSz) (n : Nat) (a : ATopic) (k : Nat) (h : TInv c n a k)
    (maxB : Nat) (cp : Bool) :
    ∃ m, (batchRead c a maxB cp).2 = (((log a).drop k).take m).map (·, 0) ∧ k + m ≤ (log a).length ∧
      log (batchRead c a maxB cp).1 = log a ∧
      (batchRead c a maxB cp).1.count = (if cp = true then a.count - m else a.count) ∧
      TInv c n (batchRead c a maxB cp).1 (if cp = true then k + m else k) := by
  unfold batchRead
  simp only
  by_cases hemp : (statefulPlan c a maxB).isEmpty = true
  · simp only [hemp, if_true]
    refine ⟨0, by simp, by simpa using h.k_le, by simp, by simp, ?_⟩
    cases cp <;> simpa using h
  · simp only [hemp, if_false]
    have hgood := statefulPlan_good c hm n a k h maxB
    have hps := parsePlan_spec c hm a k maxB (statefulPlan c a maxB) k {} hgood (psinv_init c a k h.k_le) rfl rfl
    obtain ⟨hinv, _⟩ := hps
    have hf := finishBatch_spec c n a k h _ hinv cp
    exact ⟨(parsePlan c maxB (statefulPlan c a maxB) {}).parsed, hinv.entries, hinv.inLog, hf.1, hf.2.1, hf.2.2⟩

end WalrusVerif.AEng
