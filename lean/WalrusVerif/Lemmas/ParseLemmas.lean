import WalrusVerif.Model.Reader
/-! Properties of the batch-read parser that hold for *any* plan, disk content and state. -/
namespace WalrusVerif.Eng
open WalrusVerif

def sumLens (l : List (Pay × Nat)) : Nat := (l.map fun e => e.1.len).sum

/-- payload bytes actually returned (after the front trim) -/
def sumReturned (l : List (Pay × Nat)) : Nat := (l.map fun e => e.1.len - e.2).sum

theorem sumReturned_le (l : List (Pay × Nat)) : sumReturned l ≤ sumLens l := by
  induction l with
  | nil => simp [sumReturned, sumLens]
  | cons a r ih =>
    simp only [sumReturned, sumLens, List.map_cons, List.sum_cons] at ih ⊢
    omega

structure PInv (cap maxB : Nat) (s : PState) : Prop where
  cap : s.entries.length ≤ cap
  sum : sumLens s.entries ≤ s.total
  budget : s.total ≤ maxB ∨ s.entries.length ≤ 1

theorem parseRange_inv (c : Cfg) (files : List FileSt) (maxB : Nat) (r : RPlan) (fuel bo : Nat)
    (s : PState) (h : PInv c.cap maxB s) : PInv c.cap maxB (parseRange c files maxB r fuel bo s) := by
  induction fuel generalizing bo s with
  | zero => simpa [parseRange] using h
  | succ fuel ih =>
    unfold parseRange
    simp only
    split
    · split
      · exact h
      · rename_i hcap
        split
        · exact ⟨h.cap, h.sum, h.budget⟩
        · split
          · exact h
          · rename_i x _
            split
            · exact ⟨h.cap, h.sum, h.budget⟩
            · split
              · exact ⟨h.cap, h.sum, h.budget⟩
              · rename_i hb
                apply ih
                have hlen : s.entries.length < c.cap := by omega
                have hb' : s.total + x.pay.len ≤ maxB ∨ s.entries = [] := by
                  by_cases he : s.entries = []
                  · exact Or.inr he
                  · left
                    have : ¬ (s.total + x.pay.len > maxB) := by
                      intro hgt; apply hb; refine ⟨hgt, ?_⟩; simp [he]
                    omega
                split <;> split <;>
                  (constructor
                   · simp only [List.length_cons]; omega
                   · have := h.sum
                     simp only [sumLens, List.map_cons, List.sum_cons] at this ⊢
                     omega
                   · rcases hb' with hb' | hb'
                     · exact Or.inl hb'
                     · right; simp [hb'])
    · exact h

theorem parsePlan_inv (c : Cfg) (files : List FileSt) (maxB : Nat) (plan : List RPlan) (s : PState)
    (h : PInv c.cap maxB s) : PInv c.cap maxB (parsePlan c files maxB plan s) := by
  induction plan generalizing s with
  | nil => simpa [parsePlan] using h
  | cons r rest ih =>
    unfold parsePlan
    split
    · exact h
    · exact ih _ (parseRange_inv c files maxB r _ 0 s h)

theorem pinv_init (cap maxB trim : Nat) : PInv cap maxB { trim := trim } :=
  ⟨by simp, by simp [sumLens], Or.inr (by simp)⟩

/-- what the parser's result list satisfies, in the words of C03 -/
theorem parsePlan_result (c : Cfg) (files : List FileSt) (maxB trim : Nat) (plan : List RPlan) :
    let es := (parsePlan c files maxB plan { trim := trim }).entries.reverse
    es.length ≤ c.cap ∧ (sumReturned es ≤ maxB ∨ es.length ≤ 1) := by
  intro es
  have h := parsePlan_inv c files maxB plan { trim := trim } (pinv_init c.cap maxB trim)
  refine ⟨by simpa [es] using h.cap, ?_⟩
  rcases h.budget with hb | hb
  · left
    have h1 : sumReturned es ≤ sumLens es := sumReturned_le es
    have h2 : sumLens es = sumLens (parsePlan c files maxB plan { trim := trim }).entries := by
      simp [es, sumLens, List.sum_reverse]
    have := h.sum
    omega
  · right; simpa [es] using hb

end WalrusVerif.Eng
