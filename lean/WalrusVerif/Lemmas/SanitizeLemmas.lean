import WalrusVerif.Model.Sanitize
namespace WalrusVerif.Sanitize
open WalrusVerif

def slash : Char := '/'
def nul : Char := Char.ofNat 0

theorem keep_ne_slash (c : Char) (h : keep c = true) : c ≠ '/' := by
  intro e; subst e; revert h; decide

theorem keep_ne_nul (c : Char) (h : keep c = true) : c ≠ nul := by
  intro e; subst e; revert h; decide

theorem mapChar_ne_slash (c : Char) : mapChar c ≠ '/' := by
  unfold mapChar; split
  · exact keep_ne_slash c ‹_›
  · decide

theorem mapChar_ne_nul (c : Char) : mapChar c ≠ nul := by
  unfold mapChar; split
  · exact keep_ne_nul c ‹_›
  · decide

theorem hexDigit_ok : ∀ n, n < 16 → hexDigit n ≠ '/' ∧ hexDigit n ≠ nul := by decide

theorem hexAux_ok (fuel n : Nat) (acc : List Char)
    (hacc : ∀ c ∈ acc, c ≠ '/' ∧ c ≠ nul) : ∀ c ∈ hexAux fuel n acc, c ≠ '/' ∧ c ≠ nul := by
  induction fuel generalizing n acc with
  | zero => simpa [hexAux] using hacc
  | succ f ih =>
    unfold hexAux
    split
    · intro c hc
      rcases List.mem_cons.mp hc with rfl | hc
      · exact hexDigit_ok n ‹_›
      · exact hacc c hc
    · apply ih
      intro c hc
      rcases List.mem_cons.mp hc with rfl | hc
      · exact hexDigit_ok _ (Nat.mod_lt _ (by decide))
      · exact hacc c hc

theorem hex_ok (n : Nat) : ∀ c ∈ hex n, c ≠ '/' ∧ c ≠ nul :=
  hexAux_ok 64 n [] (by simp)

theorem fallback_ok (key : List Char) :
    fallback key ≠ [] ∧ (∀ c ∈ fallback key, c ≠ '/' ∧ c ≠ nul) ∧
      fallback key ≠ ['.'] ∧ fallback key ≠ ['.', '.'] := by
  have hp : Consts.SANITIZE_FALLBACK_PREFIX = ['n', 's', '_'] := by decide
  unfold fallback; rw [hp]
  refine ⟨by simp, ?_, by simp, by simp⟩
  intro c hc
  rcases List.mem_append.mp hc with h | h
  · simp at h
    rcases h with rfl | rfl | rfl <;> decide
  · exact hex_ok _ c h

theorem sanitize_ok (key : List Char) :
    sanitize key ≠ [] ∧ (∀ c ∈ sanitize key, c ≠ '/' ∧ c ≠ nul) ∧
      sanitize key ≠ ['.'] ∧ sanitize key ≠ ['.', '.'] := by
  unfold sanitize
  simp only
  split
  · exact fallback_ok key
  · rename_i h
    simp only [Bool.or_eq_true, not_or, Bool.not_eq_true] at h
    obtain ⟨h1, h2⟩ := h
    have hex : Consts.SANITIZE_EXCLUDED = [['.'], ['.', '.']] := by decide
    rw [hex] at h2
    refine ⟨?_, ?_, ?_, ?_⟩
    · intro e; rw [e] at h1; simp [trimsToEmpty] at h1
    · intro c hc
      obtain ⟨a, _, rfl⟩ := List.mem_map.mp hc
      exact ⟨mapChar_ne_slash a, mapChar_ne_nul a⟩
    · intro e; rw [e] at h2; simp at h2
    · intro e; rw [e] at h2; simp at h2

theorem splitSlash_noslash (s : List Char) (h : ∀ c ∈ s, c ≠ '/') : splitSlash s = [s] := by
  induction s with
  | nil => rfl
  | cons c cs ih =>
    have hc : c ≠ '/' := h c (by simp)
    have := ih (fun d hd => h d (by simp [hd]))
    simp [splitSlash, hc, this]

theorem resolve_append_single (root : List (List Char)) (comp : List Char)
    (h0 : comp ≠ []) (h1 : comp ≠ ['.']) (h2 : comp ≠ ['.', '.']) :
    resolve (root ++ [comp]) = resolve root ++ [comp] := by
  simp [resolve, List.foldl_append, resolveStep, h0, h1, h2]

end WalrusVerif.Sanitize
