import WalrusVerif.Lemmas.AEngParse
/-! The batch-read planner produces a good plan from the cursor. -/
namespace WalrusVerif.AEng
open WalrusVerif WalrusVerif.Eng

/-- the planner position `(idx, off)` denotes global entry index `g` -/
structure PosDen (c : Cfg) (a : ATopic) (idx off g : Nat) : Prop where
  idx_le : idx ≤ a.chain.length
  inBlock : ∀ b, a.chain[idx]? = some b → ∃ j, j ≤ b.es.length ∧ off = bytes c (b.es.take j) ∧ g = before a.chain idx + j
  atEnd : idx = a.chain.length → g = (chainEs a.chain).length

theorem posDen_next (c : Cfg) (a : ATopic) (idx : Nat) (b : ABlk) (hb : a.chain[idx]? = some b) :
    PosDen c a (idx + 1) 0 (before a.chain idx + b.es.length) := by
  have hidx := getElem?_lt_length _ _ _ hb
  refine ⟨hidx, ?_, ?_⟩
  · intro b' _
    exact ⟨0, Nat.zero_le _, by simp, by rw [before_succ a.chain idx b hb]; rfl⟩
  · intro he
    rw [← before_succ a.chain idx b hb, he, before_length]

theorem planLoop_good (c : Cfg) (hm : 0 < c.metaSz) (a : ATopic) (maxB : Nat) :
    ∀ (fuel : Nat) (s : APlanSt) (g : Nat), a.curIdx ≤ s.curIdx → PosDen c a s.curIdx s.curOff g →
      ∃ news, (planLoop c a.chain maxB false fuel s).plan = s.plan ++ news ∧
        ∀ suffix, ((planLoop c a.chain maxB false fuel s).curIdx < a.chain.length → suffix = []) →
          ((planLoop c a.chain maxB false fuel s).curIdx ≥ a.chain.length → Good c a (chainEs a.chain).length suffix) →
          Good c a g (news ++ suffix) := by
  intro fuel
  induction fuel with
  | zero =>
    intro s g _ hp
    refine ⟨[], by simp [planLoop], ?_⟩
    intro suffix h1 h2
    simp only [planLoop, List.nil_append] at h1 h2 ⊢
    rcases Nat.lt_or_ge s.curIdx a.chain.length with hl | hl
    · rw [h1 hl]; exact Good.nil g
    · have : s.curIdx = a.chain.length := Nat.le_antisymm hp.idx_le hl
      rw [hp.atEnd this]; exact h2 hl
  | succ fuel ih =>
    intro s g hcur hp
    cases hb : a.chain[s.curIdx]? with
    | none =>
      have hstep : planLoop c a.chain maxB false (fuel + 1) s = s := by rw [planLoop]; simp [hb]
      rw [hstep]
      refine ⟨[], by simp, ?_⟩
      intro suffix h1 h2
      have hge : s.curIdx ≥ a.chain.length := by
        rcases Nat.lt_or_ge s.curIdx a.chain.length with hl | hl
        · simp [List.getElem?_eq_getElem hl] at hb
        · exact hl
      have : s.curIdx = a.chain.length := Nat.le_antisymm hp.idx_le hge
      simp only [List.nil_append]
      rw [hp.atEnd this]; exact h2 hge
    | some b =>
      have hidx := getElem?_lt_length _ _ _ hb
      obtain ⟨j, hj, hoff, hgj⟩ := hp.inBlock b hb
      by_cases hcond : s.planned < maxB ∨ s.plan.isEmpty = true
      · by_cases hex : s.curOff ≥ b.used c
        · -- exhausted block: skip
          have hstep : planLoop c a.chain maxB false (fuel + 1) s =
              planLoop c a.chain maxB false fuel { s with curIdx := s.curIdx + 1, curOff := 0, hint := 0 } := by
            rw [planLoop]; simp only [hb, hcond, hex, if_true]
          rw [hstep]
          have hjl : j = b.es.length := boundary_end c hm b.es j hj (by rw [← hoff]; exact hex)
          have hp' : PosDen c a (s.curIdx + 1) 0 g := by
            rw [hgj, hjl]; exact posDen_next c a s.curIdx b hb
          have := ih { s with curIdx := s.curIdx + 1, curOff := 0, hint := 0 } g (by simp only; omega) hp'
          exact this
        · -- plan a range of this block
          have hr : RangeOK c a (planRange b s (planStop c b s maxB false)) (before a.chain s.curIdx) j := by
            refine ⟨hj, hoff, Nat.min_le_left _ _, ?_, ?_⟩
            · intro j' e he; exact log_getElem_sealed a s.curIdx j' b hb e he
            · show if false = true then _ else _
              simp only [Bool.false_eq_true, if_false]
              exact ⟨b, hb, rfl, rfl, hcur⟩
          have hs1idx : (planAdd b s (planStop c b s maxB false)).curIdx = s.curIdx := by
            unfold planAdd; split <;> rfl
          by_cases hcut : planStop c b s maxB false < b.used c
          · have hstep : planLoop c a.chain maxB false (fuel + 1) s = planAdd b s (planStop c b s maxB false) := by
              rw [planLoop]; simp only [hb, hcond, hex, hcut, if_true, if_false]
            rw [hstep]
            by_cases hgt : planStop c b s maxB false > s.curOff
            · refine ⟨[planRange b s (planStop c b s maxB false)], by unfold planAdd; simp [hgt], ?_⟩
              intro suffix h1 _
              have : suffix = [] := h1 (by rw [hs1idx]; exact hidx)
              rw [this, List.append_nil]
              exact Good.cons g _ [] _ j hr hgj (fun h => absurd rfl h) (Good.nil _)
            · refine ⟨[], by unfold planAdd; simp [hgt], ?_⟩
              intro suffix h1 _
              have : suffix = [] := h1 (by rw [hs1idx]; exact hidx)
              rw [this]; exact Good.nil g
          · have hfull : planStop c b s maxB false = b.used c := by
              have : planStop c b s maxB false ≤ b.used c := Nat.min_le_left _ _
              omega
            have hgt : planStop c b s maxB false > s.curOff := by rw [hfull]; omega
            have hadd : planAdd b s (planStop c b s maxB false) =
                { s with plan := s.plan ++ [planRange b s (planStop c b s maxB false)],
                         planned := s.planned + (planStop c b s maxB false - s.curOff) } := by
              unfold planAdd; simp [hgt]
            have hstep : planLoop c a.chain maxB false (fuel + 1) s =
                planLoop c a.chain maxB false fuel
                  { planAdd b s (planStop c b s maxB false) with curIdx := s.curIdx + 1, curOff := 0 } := by
              rw [planLoop]; simp only [hb, hcond, hex, hcut, if_true, if_false]
            rw [hstep]
            have hp' : PosDen c a (s.curIdx + 1) 0 (before a.chain s.curIdx + b.es.length) :=
              posDen_next c a s.curIdx b hb
            have hih := ih { planAdd b s (planStop c b s maxB false) with curIdx := s.curIdx + 1, curOff := 0 }
              (before a.chain s.curIdx + b.es.length) (by show a.curIdx ≤ s.curIdx + 1; omega) hp'
            obtain ⟨news, hplan, hgood⟩ := hih
            refine ⟨planRange b s (planStop c b s maxB false) :: news, ?_, ?_⟩
            · rw [hplan]
              show (planAdd b s (planStop c b s maxB false)).plan ++ news = _
              rw [hadd]; simp
            · intro suffix h1 h2
              have hg' := hgood suffix h1 h2
              exact Good.cons g _ (news ++ suffix) _ j hr hgj (fun _ => ⟨hfull, rfl⟩) hg'
      · have hstep : planLoop c a.chain maxB false (fuel + 1) s = s := by
          rw [planLoop]; simp only [hb, hcond, if_false]
        rw [hstep]
        refine ⟨[], by simp, ?_⟩
        intro suffix h1 _
        rw [h1 hidx]; exact Good.nil g

end WalrusVerif.AEng
