import WalrusVerif.Lemmas.AEngInv
/-! `read_next` of the entry-level model returns the next unconsumed entry of the log. -/
namespace WalrusVerif.AEng
open WalrusVerif WalrusVerif.Eng

theorem boundary_end (c : Cfg) (hm : 0 < c.metaSz) (es : List Pay) (j : Nat) (hj : j ≤ es.length)
    (h : bytes c es ≤ bytes c (es.take j)) : j = es.length := by
  rcases Nat.lt_or_ge j es.length with h1 | h1
  · have := bytes_take_lt c hm es j h1; omega
  · omega

theorem getElem?_lt_length {α : Type} (l : List α) (i : Nat) (x : α) (h : l[i]? = some x) : i < l.length := by
  rcases Nat.lt_or_ge i l.length with h1 | h1
  · exact h1
  · simp [List.getElem?_eq_none h1] at h

theorem tinv_advance (c : Cfg) (hm : 0 < c.metaSz) (n : Nat) (a : ATopic) (k : Nat) (h : TInv c n a k)
    (b : ABlk) (hb : a.chain[a.curIdx]? = some b) (hge : a.curOff ≥ b.used c) :
    TInv c n { a with curIdx := a.curIdx + 1, curOff := 0 } k := by
  obtain ⟨j, hj, hoff, hk⟩ := h.sealedPos b hb
  have hidx : a.curIdx < a.chain.length := getElem?_lt_length _ _ _ hb
  have hjl : j = b.es.length := boundary_end c hm b.es j hj (by rw [← hoff]; exact hge)
  have hk' : k = before a.chain (a.curIdx + 1) := by
    rw [before_succ a.chain a.curIdx b hb, hk, hjl]
  refine ⟨hidx, ?_, fun _ => rfl, ?_, ?_, h.tailIdLt, h.writerIdLt, h.noWriterNoChain, h.k_le⟩
  · intro b' _
    exact ⟨0, Nat.zero_le _, by simp, by simpa using hk'⟩
  · intro he
    have he' : a.curIdx + 1 = a.chain.length := he
    have hlen : before a.chain (a.curIdx + 1) = (chainEs a.chain).length := by
      rw [he']; exact before_length a.chain
    show match a.writer with
      | none => k = (chainEs a.chain).length
      | some w => if a.tailId = w.id then _ else k = (chainEs a.chain).length
    cases hw : a.writer with
    | none => exact hk'.trans hlen
    | some w =>
      have := h.sealedNotTail hidx w hw
      simp only [this, if_false]
      exact hk'.trans hlen
  · intro _ w hw
    exact h.sealedNotTail hidx w hw

theorem tinv_consume_sealed (c : Cfg) (n : Nat) (a : ATopic) (k : Nat) (h : TInv c n a k)
    (b : ABlk) (hb : a.chain[a.curIdx]? = some b) (j : Nat) (hjl : j < b.es.length)
    (hoff : a.curOff = bytes c (b.es.take j)) (hk : k = before a.chain a.curIdx + j) (hklt : k < (log a).length) :
    TInv c n { a with curOff := a.curOff + raw c b.es[j], count := a.count - 1 } (k + 1) := by
  have hidx : a.curIdx < a.chain.length := getElem?_lt_length _ _ _ hb
  have he : b.es[j]? = some b.es[j] := List.getElem?_eq_getElem hjl
  refine ⟨h.idx_le, ?_, ?_, ?_, h.sealedNotTail, h.tailIdLt, h.writerIdLt, h.noWriterNoChain, ?_⟩
  · intro b' hb'
    have hb2 : a.chain[a.curIdx]? = some b' := hb'
    rw [hb] at hb2; cases hb2
    refine ⟨j + 1, hjl, ?_, ?_⟩
    · show a.curOff + raw c b.es[j] = _
      rw [bytes_take_succ c b.es j _ he, hoff]
    · show k + 1 = before a.chain a.curIdx + (j + 1)
      omega
  · intro heq
    have : a.curIdx = a.chain.length := heq
    omega
  · intro heq
    have : a.curIdx = a.chain.length := heq
    omega
  · exact hklt

theorem tinv_consume_tail (c : Cfg) (n : Nat) (a : ATopic) (k : Nat) (h : TInv c n a k)
    (hidx : a.curIdx = a.chain.length) (w : ABlk) (hw : a.writer = some w) (j : Nat) (hjl : j < w.es.length)
    (off : Nat) (hoff : off = bytes c (w.es.take j)) (hk : k = (chainEs a.chain).length + j)
    (hklt : k < (log a).length) :
    TInv c n { a with tailId := w.id, tailOff := off + raw c w.es[j], count := a.count - 1 } (k + 1) := by
  have he : w.es[j]? = some w.es[j] := List.getElem?_eq_getElem hjl
  refine ⟨h.idx_le, ?_, h.tailOff0, ?_, ?_, h.writerIdLt w hw, h.writerIdLt, h.noWriterNoChain, ?_⟩
  · intro b' hb'
    have hb2 : a.chain[a.curIdx]? = some b' := hb'
    rw [hidx] at hb2; simp at hb2
  · intro _
    show match a.writer with
      | none => _
      | some w' => if w.id = w'.id then ∃ j', j' ≤ w'.es.length ∧ off + raw c w.es[j] = bytes c (w'.es.take j') ∧
          k + 1 = (chainEs a.chain).length + j' else _
    rw [hw]
    simp only [if_true]
    refine ⟨j + 1, hjl, ?_, by omega⟩
    rw [bytes_take_succ c w.es j _ he, hoff]
  · intro hl
    have : a.curIdx < a.chain.length := hl
    omega
  · exact hklt

/-- what `readNextLoop` does, under the invariant -/
theorem readNextLoop_spec (c : Cfg) (hm : 0 < c.metaSz) (cp : Bool) (n : Nat) :
    ∀ (fuel : Nat) (a : ATopic) (k : Nat), TInv c n a k → a.chain.length - a.curIdx < fuel →
      (readNextLoop c cp fuel a).2 = (log a)[k]? ∧
      (readNextLoop c cp fuel a).1.chain = a.chain ∧ (readNextLoop c cp fuel a).1.writer = a.writer ∧
      (readNextLoop c cp fuel a).1.count = (if cp = true ∧ ((log a)[k]?).isSome then a.count - 1 else a.count) ∧
      TInv c n (readNextLoop c cp fuel a).1 (if cp = true ∧ ((log a)[k]?).isSome then k + 1 else k) := by
  intro fuel
  induction fuel with
  | zero => intro a k _ hf; omega
  | succ fuel ih =>
    intro a k h hf
    cases hb : a.chain[a.curIdx]? with
    | some b =>
      obtain ⟨j, hj, hoff, hk⟩ := h.sealedPos b hb
      have hidx : a.curIdx < a.chain.length := getElem?_lt_length _ _ _ hb
      by_cases hge : a.curOff ≥ b.used c
      · -- block exhausted: advance
        have hinv := tinv_advance c hm n a k h b hb hge
        have hstep : readNextLoop c cp (fuel + 1) a =
            readNextLoop c cp fuel { a with curIdx := a.curIdx + 1, curOff := 0 } := by
          rw [readNextLoop]; simp only [hb, hge, if_true]
        rw [hstep]
        have := ih { a with curIdx := a.curIdx + 1, curOff := 0 } k hinv (by simp only; omega)
        exact this
      · -- an entry is there
        have hlt : bytes c (b.es.take j) < bytes c b.es := by
          rw [← hoff]; exact Nat.lt_of_not_le hge
        have hjl : j < b.es.length := boundary_lt_used c hm b.es j hj hlt
        have he : b.es[j]? = some b.es[j] := List.getElem?_eq_getElem hjl
        have hent : entryAt c b.es a.curOff = some b.es[j] := by
          rw [hoff, entryAt_boundary c hm, he]
        have hlog : (log a)[k]? = some b.es[j] := by
          rw [hk]; exact log_getElem_sealed a a.curIdx j b hb _ he
        have hklt : k < (log a).length := getElem?_lt_length _ _ _ hlog
        cases cp with
        | false =>
          have hstep : readNextLoop c false (fuel + 1) a = (a, some b.es[j]) := by
            rw [readNextLoop]; simp [hb, hge, hent]
          rw [hstep]
          exact ⟨hlog.symm, rfl, rfl, by simp, by simpa using h⟩
        | true =>
          have hstep : readNextLoop c true (fuel + 1) a =
              ({ a with curOff := a.curOff + raw c b.es[j], count := a.count - 1 }, some b.es[j]) := by
            rw [readNextLoop]; simp [hb, hge, hent]
          rw [hstep]
          refine ⟨hlog.symm, rfl, rfl, by simp [hlog], ?_⟩
          simp only [hlog, Option.isSome_some, and_self, if_true]
          exact tinv_consume_sealed c n a k h b hb j hjl hoff hk hklt
    | none =>
      have hidx : a.curIdx = a.chain.length := by
        have := h.idx_le
        rcases Nat.lt_or_ge a.curIdx a.chain.length with h1 | h1
        · simp [List.getElem?_eq_getElem h1] at hb
        · omega
      have htp := h.tailPos hidx
      cases hw : a.writer with
      | none =>
        rw [hw] at htp
        have htp' : k = (chainEs a.chain).length := htp
        have hlog : (log a)[k]? = none := by
          rw [htp']; simp [log, tailEs, hw]
        have hstep : readNextLoop c cp (fuel + 1) a = (a, none) := by
          rw [readNextLoop]; simp [hb, hw]
        rw [hstep]
        refine ⟨hlog.symm, rfl, hw, by simp [hlog], ?_⟩
        simp only [hlog, Option.isSome_none, Bool.false_eq_true, and_false, if_false]
        exact h
      | some w =>
        rw [hw] at htp
        -- the tail offset and the index it denotes
        have hj : ∃ j, j ≤ w.es.length ∧ (if a.tailId = w.id then a.tailOff else 0) = bytes c (w.es.take j) ∧
            k = (chainEs a.chain).length + j := by
          by_cases ht : a.tailId = w.id
          · simp only [ht, if_true] at htp ⊢; exact htp
          · simp only [ht, if_false] at htp ⊢; exact ⟨0, Nat.zero_le _, by simp, by simpa using htp⟩
        obtain ⟨j, hjle, hoff, hk⟩ := hj
        by_cases hlt : (if a.tailId = w.id then a.tailOff else 0) < w.used c
        · have hlt' : bytes c (w.es.take j) < bytes c w.es := by rw [← hoff]; exact hlt
          have hjl : j < w.es.length := boundary_lt_used c hm w.es j hjle hlt'
          have he : w.es[j]? = some w.es[j] := List.getElem?_eq_getElem hjl
          have hent : entryAt c w.es (if a.tailId = w.id then a.tailOff else 0) = some w.es[j] := by
            rw [hoff, entryAt_boundary c hm, he]
          have hlog : (log a)[k]? = some w.es[j] := by
            rw [hk, log_getElem_tail a w hw j]; exact he
          have hklt : k < (log a).length := getElem?_lt_length _ _ _ hlog
          cases cp with
          | false =>
            have hstep : readNextLoop c false (fuel + 1) a = (a, some w.es[j]) := by
              rw [readNextLoop]; simp [hb, hw, hlt, hent]
            rw [hstep]
            exact ⟨hlog.symm, rfl, hw, by simp, by simpa using h⟩
          | true =>
            have hstep : readNextLoop c true (fuel + 1) a =
                ({ a with tailId := w.id, tailOff := (if a.tailId = w.id then a.tailOff else 0) + raw c w.es[j],
                          count := a.count - 1 }, some w.es[j]) := by
              rw [readNextLoop]; simp [hb, hw, hlt, hent]
            rw [hstep]
            refine ⟨hlog.symm, rfl, hw, by simp [hlog], ?_⟩
            simp only [hlog, Option.isSome_some, and_self, if_true]
            exact tinv_consume_tail c n a k h hidx w hw j hjl _ hoff hk hklt
        · have hge : bytes c w.es ≤ bytes c (w.es.take j) := by
            rw [← hoff]; exact Nat.le_of_not_lt hlt
          have hjl : j = w.es.length := boundary_end c hm w.es j hjle hge
          have hlog : (log a)[k]? = none := by
            rw [hk, log_getElem_tail a w hw j, hjl]; simp
          have hstep : readNextLoop c cp (fuel + 1) a = (a, none) := by
            rw [readNextLoop]; simp [hb, hw, hlt]
          rw [hstep]
          refine ⟨hlog.symm, rfl, hw, by simp [hlog], ?_⟩
          simp only [hlog, Option.isSome_none, Bool.false_eq_true, and_false, if_false]
          exact h

theorem readNext_spec (c : Cfg) (hm : 0 < c.metaSz) (cp : Bool) (n : Nat) (a : ATopic) (k : Nat)
    (h : TInv c n a k) :
    (readNext c a cp).2 = (log a)[k]? ∧ log (readNext c a cp).1 = log a ∧
      (readNext c a cp).1.count = (if cp = true ∧ ((log a)[k]?).isSome then a.count - 1 else a.count) ∧
      TInv c n (readNext c a cp).1 (if cp = true ∧ ((log a)[k]?).isSome then k + 1 else k) := by
  have := readNextLoop_spec c hm cp n (a.chain.length + 2) a k h (by omega)
  refine ⟨this.1, ?_, this.2.2.2.1, this.2.2.2.2⟩
  unfold readNext log tailEs
  rw [this.2.1, this.2.2.1]

end WalrusVerif.AEng
