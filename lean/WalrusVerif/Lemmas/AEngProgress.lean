import WalrusVerif.Lemmas.AEngBatch
/-! Progress of the cursor-based batch read: if an entry is unconsumed, at least one is returned. -/
namespace WalrusVerif.AEng
open WalrusVerif WalrusVerif.Eng

theorem peekWant_ge (c : Cfg) (hm : 0 < c.metaSz) (b : ABlk) (j : Nat) (hj : j < b.es.length) (want : Nat) :
    raw c b.es[j] ≤ peekWant c b (bytes c (b.es.take j)) want := by
  have he : b.es[j]? = some b.es[j] := List.getElem?_eq_getElem hj
  have hent : entryAt c b.es (bytes c (b.es.take j)) = some b.es[j] := by
    rw [entryAt_boundary c hm, he]
  have hfit : bytes c (b.es.take j) + c.metaSz ≤ b.used c := by
    have h1 := bytes_take_succ c b.es j _ he
    have h2 := bytes_take_le c b.es (j + 1)
    unfold ABlk.used raw at *
    omega
  have key : ∀ F, raw c b.es[j] ≤ F → raw c b.es[j] ≤ (if F > want then F else want) := by
    intro F h; split <;> omega
  unfold peekWant
  simp only [hfit, if_true, hent]
  apply key
  split
  · split
    · split
      · exact Nat.le_add_right _ _
      · exact Nat.le_refl _
    · exact Nat.le_refl _
  · exact Nat.le_refl _

/-- the first planned range covers the first unconsumed entry completely -/
structure FirstOK (c : Cfg) (a : ATopic) (g : Nat) (e : Pay) (plan : List ARange) : Prop where
  ex : ∃ r rest base j0, plan = r :: rest ∧ RangeOK c a r base j0 ∧ g = base + j0 ∧
    r.es[j0]? = some e ∧ r.start + raw c e ≤ r.stop

theorem planLoop_first (c : Cfg) (hm : 0 < c.metaSz) (a : ATopic) (maxB : Nat) (e : Pay) :
    ∀ (fuel : Nat) (s : APlanSt) (g : Nat), s.plan = [] → s.planned = 0 → a.curIdx ≤ s.curIdx →
      PosDen c a s.curIdx s.curOff g → a.chain.length - s.curIdx < fuel → (log a)[g]? = some e →
      FirstOK c a g e (planLoop c a.chain maxB false fuel s).plan ∨
        ((planLoop c a.chain maxB false fuel s).plan = [] ∧
          (planLoop c a.chain maxB false fuel s).curIdx ≥ a.chain.length ∧ g = (chainEs a.chain).length) := by
  intro fuel
  induction fuel with
  | zero => intro s g _ _ _ _ hf _; omega
  | succ fuel ih =>
    intro s g hpl hpn hcur hp hf hlog
    cases hb : a.chain[s.curIdx]? with
    | none =>
      have hstep : planLoop c a.chain maxB false (fuel + 1) s = s := by rw [planLoop]; simp [hb]
      rw [hstep]
      have hge : s.curIdx ≥ a.chain.length := by
        rcases Nat.lt_or_ge s.curIdx a.chain.length with hl | hl
        · simp [List.getElem?_eq_getElem hl] at hb
        · exact hl
      exact Or.inr ⟨hpl, hge, hp.atEnd (Nat.le_antisymm hp.idx_le hge)⟩
    | some b =>
      have hidx := getElem?_lt_length _ _ _ hb
      obtain ⟨j, hj, hoff, hgj⟩ := hp.inBlock b hb
      have hcond : s.planned < maxB ∨ s.plan.isEmpty = true := Or.inr (by rw [hpl]; rfl)
      by_cases hex : s.curOff ≥ b.used c
      · have hstep : planLoop c a.chain maxB false (fuel + 1) s =
            planLoop c a.chain maxB false fuel { s with curIdx := s.curIdx + 1, curOff := 0, hint := 0 } := by
          rw [planLoop]; simp only [hb, hcond, hex, if_true]
        rw [hstep]
        have hjl : j = b.es.length := boundary_end c hm b.es j hj (by rw [← hoff]; exact hex)
        have hp' : PosDen c a (s.curIdx + 1) 0 g := by
          rw [hgj, hjl]; exact posDen_next c a s.curIdx b hb
        exact ih { s with curIdx := s.curIdx + 1, curOff := 0, hint := 0 } g hpl hpn
          (by show a.curIdx ≤ s.curIdx + 1; omega) hp' (by show a.chain.length - (s.curIdx + 1) < fuel; omega) hlog
      · -- the block holds the first unconsumed entry
        have hlt : bytes c (b.es.take j) < bytes c b.es := by
          rw [← hoff]; exact Nat.lt_of_not_le hex
        have hjl : j < b.es.length := boundary_lt_used c hm b.es j hj hlt
        have he : b.es[j]? = some b.es[j] := List.getElem?_eq_getElem hjl
        have hee : b.es[j] = e := by
          have := log_getElem_sealed a s.curIdx j b hb _ he
          rw [← hgj, hlog] at this
          exact (Option.some.inj this).symm
        have hwant : raw c e ≤ planWant c b s maxB false := by
          unfold planWant
          simp only [hpn, if_true, Bool.false_eq_true, false_and, if_false]
          rw [hoff, ← hee]; exact peekWant_ge c hm b j hjl _
        have hused : s.curOff + raw c e ≤ b.used c := by
          have h1 := bytes_take_succ c b.es j _ he
          have h2 := bytes_take_le c b.es (j + 1)
          rw [hee] at h1
          unfold ABlk.used; omega
        have hstop : s.curOff + raw c e ≤ planStop c b s maxB false := by
          unfold planStop
          exact Nat.le_min.mpr ⟨hused, by omega⟩
        have hgt : planStop c b s maxB false > s.curOff := by
          have := raw_pos c hm e; omega
        have hr : RangeOK c a (planRange b s (planStop c b s maxB false)) (before a.chain s.curIdx) j := by
          refine ⟨hj, hoff, Nat.min_le_left _ _, ?_, ?_⟩
          · intro j' e' he'; exact log_getElem_sealed a s.curIdx j' b hb e' he'
          · show if false = true then _ else _
            simp only [Bool.false_eq_true, if_false]
            exact ⟨b, hb, rfl, rfl, hcur⟩
        have hadd : (planAdd b s (planStop c b s maxB false)).plan = [planRange b s (planStop c b s maxB false)] := by
          unfold planAdd; simp [hgt, hpl]
        left
        refine ⟨?_⟩
        by_cases hcut : planStop c b s maxB false < b.used c
        · have hstep : planLoop c a.chain maxB false (fuel + 1) s = planAdd b s (planStop c b s maxB false) := by
            rw [planLoop]; simp only [hb, hcond, hex, hcut, if_true, if_false]
          rw [hstep, hadd]
          exact ⟨_, [], _, j, rfl, hr, hgj, by rw [← hee]; exact he, hstop⟩
        · have hstep : planLoop c a.chain maxB false (fuel + 1) s =
              planLoop c a.chain maxB false fuel
                { planAdd b s (planStop c b s maxB false) with curIdx := s.curIdx + 1, curOff := 0 } := by
            rw [planLoop]; simp only [hb, hcond, hex, hcut, if_true, if_false]
          rw [hstep]
          obtain ⟨news, hplan, _⟩ := planLoop_good c hm a maxB fuel
            { planAdd b s (planStop c b s maxB false) with curIdx := s.curIdx + 1, curOff := 0 }
            (before a.chain s.curIdx + b.es.length) (by show a.curIdx ≤ s.curIdx + 1; omega)
            (posDen_next c a s.curIdx b hb)
          rw [hplan]
          show ∃ r rest base j0, (planAdd b s (planStop c b s maxB false)).plan ++ news = r :: rest ∧ _
          rw [hadd]
          exact ⟨_, news, _, j, rfl, hr, hgj, by rw [← hee]; exact he, hstop⟩

end WalrusVerif.AEng

namespace WalrusVerif.AEng
open WalrusVerif WalrusVerif.Eng

theorem parseRange_mono (c : Cfg) (maxB : Nat) (r : ARange) :
    ∀ (fuel bo : Nat) (s : APState), s.parsed ≤ (parseRange c maxB r fuel bo s).parsed := by
  intro fuel
  induction fuel with
  | zero => intro bo s; simp [parseRange]
  | succ fuel ih =>
    intro bo s
    rw [parseRange]
    simp only
    split
    · split
      · exact Nat.le_refl _
      · split
        · exact Nat.le_refl _
        · split
          · exact Nat.le_refl _
          · split
            · exact Nat.le_refl _
            · split
              · exact Nat.le_refl _
              · refine Nat.le_trans ?_ (ih _ _)
                split <;> simp
    · exact Nat.le_refl _

theorem parsePlan_mono (c : Cfg) (maxB : Nat) :
    ∀ (plan : List ARange) (s : APState), s.parsed ≤ (parsePlan c maxB plan s).parsed := by
  intro plan
  induction plan with
  | nil => intro s; exact Nat.le_refl _
  | cons r rest ih =>
    intro s
    rw [parsePlan]
    split
    · exact Nat.le_refl _
    · exact Nat.le_trans (parseRange_mono c maxB r _ _ s) (ih _)

theorem parsePlan_progress (c : Cfg) (hm : 0 < c.metaSz) (hcap : 0 < c.cap) (a : ATopic) (g maxB : Nat) (e : Pay)
    (plan : List ARange) (hf : FirstOK c a g e plan) : 1 ≤ (parsePlan c maxB plan {}).parsed := by
  obtain ⟨r, rest, base, j0, hplan, hr, _, he, hstop⟩ := hf.ex
  subst hplan
  have hraw := raw_pos c hm e
  have hent : entryAt c r.es (r.start + 0) = some e := by
    rw [Nat.add_zero, hr.start_eq, entryAt_boundary c hm, he]
  have hne : ¬ (({} : APState).stop = true ∨ ({} : APState).entries.length ≥ c.cap) := by
    simp; omega
  rw [parsePlan]
  simp only [hne, if_false]
  refine Nat.le_trans ?_ (parsePlan_mono c maxB rest _)
  rw [parseRange]
  have h1 : 0 < r.stop - r.start := by omega
  have h2 : ¬ (({} : APState).entries.length ≥ c.cap) := by simp; omega
  have h3 : ¬ (0 + c.metaSz > r.stop - r.start) := by unfold raw at hstop; omega
  have h4 : ¬ (0 + raw c e > r.stop - r.start) := by omega
  have h5 : ¬ (({} : APState).total + e.len > maxB ∧ (!({} : APState).entries.isEmpty) = true) := by simp
  simp only [h1, h2, h3, hent, h4, h5, if_true, if_false]
  refine Nat.le_trans ?_ (parseRange_mono c maxB r _ _ _)
  split <;> simp

theorem firstOK_append (c : Cfg) (a : ATopic) (g : Nat) (e : Pay) (p q : List ARange) (h : FirstOK c a g e p) :
    FirstOK c a g e (p ++ q) := by
  obtain ⟨r, rest, base, j0, hplan, hr, hg, he, hstop⟩ := h.ex
  exact ⟨r, rest ++ q, base, j0, by rw [hplan]; rfl, hr, hg, he, hstop⟩

/-- the plan of a cursor read starts with a range that fully covers the first unconsumed entry -/
theorem statefulPlan_first (c : Cfg) (hm : 0 < c.metaSz) (n : Nat) (a : ATopic) (k : Nat) (h : TInv c n a k)
    (maxB : Nat) (e : Pay) (hlog : (log a)[k]? = some e) : FirstOK c a k e (statefulPlan c a maxB) := by
  have htail : ∀ (w : ABlk) (j : Nat), a.writer = some w → k = (chainEs a.chain).length + j → j ≤ w.es.length →
      bytes c (w.es.take j) < w.used c ∧
      FirstOK c a k e [tailRange c w (bytes c (w.es.take j))] := by
    intro w j hw hk hj
    have hwe : w.es[j]? = some e := by
      rw [← log_getElem_tail a w hw j, ← hk]; exact hlog
    have hjl := getElem?_lt_length _ _ _ hwe
    refine ⟨bytes_take_lt c hm w.es j hjl, ⟨_, [], (chainEs a.chain).length, j, rfl, ?_, hk, hwe, ?_⟩⟩
    · refine ⟨hj, rfl, Nat.le_refl _, ?_, ?_⟩
      · intro j' e' he'
        rw [log_getElem_tail a w hw j']; exact he'
      · show if true = true then _ else _
        simp only [if_true]
        refine ⟨w, hw, ?_, ?_, ?_⟩ <;> simp [tailRange]
    · show bytes c (w.es.take j) + raw c e ≤ bytes c w.es
      have h1 := bytes_take_succ c w.es j _ hwe
      have h2 := bytes_take_le c w.es (j + 1)
      omega
  unfold statefulPlan
  rcases Nat.lt_or_ge a.curIdx a.chain.length with hlt | hge
  · have hp : PosDen c a a.curIdx a.curOff k := ⟨h.idx_le, h.sealedPos, fun he => by omega⟩
    have hfirst := planLoop_first c hm a maxB e (a.chain.length + 1)
      { curIdx := a.curIdx, curOff := a.curOff, planned := 0, hint := 0, plan := [] } k rfl rfl (Nat.le_refl _) hp
      (by show a.chain.length - a.curIdx < a.chain.length + 1; omega) hlog
    simp only
    rcases hfirst with hf | ⟨hnil, hend, hk⟩
    · -- a sealed range comes first; a tail range may be appended behind it
      split
      · cases hw : a.writer with
        | none => simp only; exact hf
        | some w =>
          simp only
          split <;> (split <;> first | exact firstOK_append c a k e _ _ hf | exact hf)
      · exact hf
    · -- the sealed chain is exhausted: the entry is in the tail
      simp only [hend, ge_iff_le, if_true]
      cases hw : a.writer with
      | none =>
        exfalso
        have : (log a)[k]? = none := by rw [hk]; simp [log, tailEs, hw]
        rw [this] at hlog; cases hlog
      | some w =>
        have hne : a.tailId ≠ w.id := h.sealedNotTail hlt w hw
        have := htail w 0 hw (by simpa using hk) (Nat.zero_le _)
        simp only [hne, if_false]
        have h0 : (0 : Nat) < w.used c := by simpa using this.1
        simp only [h0, if_true, hnil, List.nil_append]
        simpa [tailRange] using this.2
  · have hidx : a.curIdx = a.chain.length := Nat.le_antisymm h.idx_le hge
    have hnone : a.chain[a.curIdx]? = none := by rw [hidx]; simp
    have hstep : planLoop c a.chain maxB false (a.chain.length + 1)
        { curIdx := a.curIdx, curOff := a.curOff, planned := 0, hint := 0, plan := [] } =
        { curIdx := a.curIdx, curOff := a.curOff, planned := 0, hint := 0, plan := [] } := by
      rw [planLoop]; simp only [hnone]
    rw [hstep]
    simp only [hge, ge_iff_le, if_true]
    have htp := h.tailPos hidx
    cases hw : a.writer with
    | none =>
      exfalso
      rw [hw] at htp
      have hk : k = (chainEs a.chain).length := htp
      have : (log a)[k]? = none := by rw [hk]; simp [log, tailEs, hw]
      rw [this] at hlog; cases hlog
    | some w =>
      rw [hw] at htp
      simp only
      by_cases ht : a.tailId = w.id
      · simp only [ht, if_true] at htp ⊢
        obtain ⟨j, hj, ho, hk⟩ := htp
        have := htail w j hw hk hj
        rw [ho]
        simp only [this.1, if_true, List.nil_append]
        exact this.2
      · simp only [ht, if_false] at htp ⊢
        have := htail w 0 hw (by simpa using htp) (Nat.zero_le _)
        have h0 : (0 : Nat) < w.used c := by simpa using this.1
        simp only [h0, if_true, List.nil_append]
        simpa [tailRange] using this.2

/-- progress of the cursor-based batch read -/
theorem batchRead_progress (c : Cfg) (hm : 0 < c.metaSz) (hcap : 0 < c.cap) (n : Nat) (a : ATopic) (k : Nat)
    (h : TInv c n a k) (maxB : Nat) (cp : Bool) (e : Pay) (hlog : (log a)[k]? = some e) :
    1 ≤ (batchRead c a maxB cp).2.length := by
  have hf := statefulPlan_first c hm n a k h maxB e hlog
  have hp := parsePlan_progress c hm hcap a k maxB e _ hf
  have hgood := statefulPlan_good c hm n a k h maxB
  have hps := parsePlan_spec c hm a k maxB (statefulPlan c a maxB) k {} hgood (psinv_init c a k h.k_le) rfl rfl
  obtain ⟨r, rest, _, _, hplan, _⟩ := hf.ex
  unfold batchRead
  simp only [hplan, List.isEmpty_cons, Bool.false_eq_true, if_false]
  rw [← hplan, List.length_reverse, hps.1.len]
  exact hp

end WalrusVerif.AEng
