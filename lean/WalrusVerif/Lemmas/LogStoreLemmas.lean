import WalrusVerif.Model.LogStore
import WalrusVerif.Lemmas.AMapLemmas
/-! Lemmas about the log-store model (C21). -/
namespace WalrusVerif.LogStore
open WalrusVerif

theorem replay_append (m : Mem) (a b : List Rec) : replay m (a ++ b) = replay (replay m a) b := by
  simp [replay, List.foldl_append]

theorem replay_entries (m : Mem) (es : List Ent) : replay m (es.map Rec.entry) = memAppend m es := by
  induction es generalizing m with
  | nil => rfl
  | cons e r ih =>
    simp only [List.map_cons, replay, List.foldl_cons, memAppend] at ih ⊢
    exact ih _

theorem appendRecs_recs (w : Wal Rec) (rs : List Rec) : (appendRecs w rs).recs = w.recs ++ rs := by
  induction rs generalizing w with
  | nil => simp [appendRecs]
  | cons r rs ih =>
    simp only [appendRecs, List.foldl_cons] at ih ⊢
    rw [ih]; simp [Wal.append]

theorem peersOf_append (m : AMap Nat Nat) (a b : List (Nat × Nat)) : peersOf m (a ++ b) = peersOf (peersOf m a) b := by
  simp [peersOf, List.foldl_append]

/-- later records win; what the records do not mention is kept -/
theorem get?_peersOf (m : AMap Nat Nat) (rs : List (Nat × Nat)) (k : Nat) :
    (peersOf m rs).get? k = match (peersOf AMap.empty rs).get? k with | some v => some v | none => m.get? k := by
  induction rs generalizing m with
  | nil => rfl
  | cons r rs ih =>
    have h1 := ih (m.insert r.1 r.2)
    have h2 := ih (AMap.insert AMap.empty r.1 r.2)
    simp only [peersOf, List.foldl_cons] at h1 h2 ⊢
    rw [h1, h2]
    cases (List.foldl (fun m r => AMap.insert m r.1 r.2) (AMap.empty : AMap Nat Nat) rs).get? k with
    | some v => rfl
    | none =>
      simp only
      by_cases hk : r.1 = k
      · subst hk; simp
      · rw [AMap.get?_insert_ne _ _ _ _ hk, AMap.get?_insert_ne _ _ _ _ hk]
        simp [AMap.get?]

/-- what a suffix of the records says about a peer is what the whole log says -/
theorem peers_suffix (rs : List (Nat × Nat)) (c k v : Nat) (h : (peersOf AMap.empty (rs.drop c)).get? k = some v) :
    (peersOf AMap.empty rs).get? k = some v := by
  have : rs = rs.take c ++ rs.drop c := (List.take_append_drop c rs).symm
  rw [this, peersOf_append, get?_peersOf, h]

/-- a reader hands back some suffix of the log and leaves the records alone -/
def ReaderOk {α : Type} (rd : Wal α → List α × Wal α) : Prop :=
  ∀ w, (rd w).2.recs = w.recs ∧ ∃ c, (rd w).1 = w.recs.drop c

theorem readAll_ok {α : Type} : ReaderOk (Wal.readAll (α := α)) := fun w => ⟨rfl, w.consumed, rfl⟩
theorem readFromStart_ok {α : Type} : ReaderOk (Wal.readFromStart (α := α)) := fun w => ⟨rfl, 0, by simp [Wal.readFromStart]⟩

/-- the logs hold the acknowledged state: replaying *all* of them gives it -/
structure Inv (n : Node) (a : Ack) : Prop where
  log : replay {} n.wal.recs = a.mem
  peers : ∀ k, (peersOf AMap.empty n.pwal.recs).get? k = a.peers.get? k
  livePeers : ∀ lv, n.live = some lv → ∀ k v, lv.peers.get? k = some v → a.peers.get? k = some v

/-- the open store reports the acknowledged state -/
def LiveOk (n : Node) (a : Ack) : Prop :=
  ∀ lv, n.live = some lv → lv.mem = a.mem ∧ ∀ k, lv.peers.get? k = a.peers.get? k

theorem inv_init : Inv {} {} := ⟨rfl, fun _ => rfl, fun _ h => by simp at h⟩

theorem replay_snoc (m : Mem) (rs : List Rec) (r : Rec) : replay m (rs ++ [r]) = replayStep (replay m rs) r := by
  simp [replay, List.foldl_append]

theorem inv_step (rl : Wal Rec → List Rec × Wal Rec) (rp : Wal (Nat × Nat) → List (Nat × Nat) × Wal (Nat × Nat))
    (hl : ReaderOk rl) (hp : ReaderOk rp) (n : Node) (a : Ack) (op : Op) (h : Inv n a) :
    Inv (stepG rl rp n op).1 (ackStep a op (stepG rl rp n op).2) := by
  obtain ⟨hlog, hpeers, hlive⟩ := h
  cases op with
  | open_ =>
    simp only [stepG, openWith, ackStep, Out.acked, if_true]
    refine ⟨by rw [(hl n.wal).1]; exact hlog, by rw [(hp n.pwal).1]; exact hpeers, ?_⟩
    intro lv hlv k v hk
    simp only [Option.some.injEq] at hlv
    subst hlv
    obtain ⟨c, hc⟩ := (hp n.pwal).2
    simp only [hc] at hk
    rw [← hpeers]
    exact peers_suffix _ _ _ _ hk
  | restart => simp only [stepG, ackStep, Out.acked, if_true]; exact ⟨hlog, hpeers, fun _ h => by simp at h⟩
  | kill => simp only [stepG, ackStep, Out.acked, if_true]; exact ⟨hlog, hpeers, fun _ h => by simp at h⟩
  | append es =>
    simp only [stepG]
    cases hv : n.live with
    | none => simp only [ackStep, Out.acked, Bool.false_eq_true, if_false]; exact ⟨hlog, hpeers, hlive⟩
    | some lv =>
      simp only [ackStep, Out.acked, if_true]
      refine ⟨?_, hpeers, ?_⟩
      · rw [appendRecs_recs, replay_append, hlog, replay_entries]
      · intro lv' hlv'; simp only [Option.some.injEq] at hlv'; subst hlv'; exact hlive lv hv
  | truncate l =>
    simp only [stepG]
    cases hv : n.live with
    | none => simp only [ackStep, Out.acked, Bool.false_eq_true, if_false]; exact ⟨hlog, hpeers, hlive⟩
    | some lv =>
      simp only [ackStep, Out.acked, if_true]
      refine ⟨?_, hpeers, ?_⟩
      · simp only [Wal.append]; rw [replay_snoc, hlog]; rfl
      · intro lv' hlv'; simp only [Option.some.injEq] at hlv'; subst hlv'; exact hlive lv hv
  | purge l =>
    simp only [stepG]
    cases hv : n.live with
    | none => simp only [ackStep, Out.acked, Bool.false_eq_true, if_false]; exact ⟨hlog, hpeers, hlive⟩
    | some lv =>
      simp only
      cases hm : memPurge lv.mem l with
      | none => simp only [ackStep, Out.acked, Bool.false_eq_true, if_false]; exact ⟨hlog, hpeers, hlive⟩
      | some m =>
        simp only [ackStep, Out.acked, if_true]
        refine ⟨?_, hpeers, ?_⟩
        · simp only [Wal.append]; rw [replay_snoc, hlog]; rfl
        · intro lv' hlv'; simp only [Option.some.injEq] at hlv'; subst hlv'; exact hlive lv hv
  | vote v =>
    simp only [stepG]
    cases hv : n.live with
    | none => simp only [ackStep, Out.acked, Bool.false_eq_true, if_false]; exact ⟨hlog, hpeers, hlive⟩
    | some lv =>
      simp only [ackStep, Out.acked, if_true]
      refine ⟨?_, hpeers, ?_⟩
      · simp only [Wal.append]; rw [replay_snoc, hlog]; rfl
      · intro lv' hlv'; simp only [Option.some.injEq] at hlv'; subst hlv'; exact hlive lv hv
  | committed c =>
    simp only [stepG]
    cases hv : n.live with
    | none => simp only [ackStep, Out.acked, Bool.false_eq_true, if_false]; exact ⟨hlog, hpeers, hlive⟩
    | some lv =>
      simp only [ackStep, Out.acked, if_true]
      refine ⟨?_, hpeers, ?_⟩
      · simp only [Wal.append]; rw [replay_snoc, hlog]; rfl
      · intro lv' hlv'; simp only [Option.some.injEq] at hlv'; subst hlv'; exact hlive lv hv
  | peer id port =>
    simp only [stepG]
    cases hv : n.live with
    | none => simp only [ackStep, Out.acked, Bool.false_eq_true, if_false]; exact ⟨hlog, hpeers, hlive⟩
    | some lv =>
      simp only
      by_cases hg : lv.peers.get? id = some port
      · simp only [hg, if_true, ackStep, Out.acked]
        have ha := hlive lv hv id port hg
        have hext : ∀ k, (a.peers.insert id port).get? k = a.peers.get? k := by
          intro k; rw [AMap.get?_insert]; by_cases hk : id = k
          · subst hk; simp [ha]
          · simp [hk]
        refine ⟨hlog, fun k => by rw [hext]; exact hpeers k, ?_⟩
        intro lv' hlv' k v hk
        rw [hext]; rw [hv] at hlv'; exact hlive lv hv k v (by simp only [Option.some.injEq] at hlv'; subst hlv'; exact hk)
      · simp only [hg, if_false, ackStep, Out.acked, if_true]
        refine ⟨hlog, ?_, ?_⟩
        · intro k
          simp only [Wal.append]
          rw [peersOf_append]
          simp only [peersOf, List.foldl_cons, List.foldl_nil]
          rw [AMap.get?_insert, AMap.get?_insert]
          by_cases hk : id = k
          · simp [hk]
          · simp only [hk, if_false]; exact hpeers k
        · intro lv' hlv' k v hk
          simp only [Option.some.injEq] at hlv'; subst hlv'
          simp only at hk
          rw [AMap.get?_insert] at hk ⊢
          by_cases hkk : id = k
          · simp only [hkk, if_true] at hk ⊢; exact hk
          · simp only [hkk, if_false] at hk ⊢; exact hlive lv hv k v hk
  | state =>
    simp only [stepG]
    cases hv : n.live with
    | none => simp only [ackStep, Out.acked, Bool.false_eq_true, if_false]; exact ⟨hlog, hpeers, hlive⟩
    | some lv => simp only [ackStep, Out.acked, Bool.false_eq_true, if_false]; exact ⟨hlog, hpeers, hlive⟩

/-- an operation other than `open` keeps the open store in step with the acknowledged state -/
theorem liveOk_step (rl : Wal Rec → List Rec × Wal Rec) (rp : Wal (Nat × Nat) → List (Nat × Nat) × Wal (Nat × Nat))
    (n : Node) (a : Ack) (op : Op) (hi : Inv n a) (h : LiveOk n a)
    (hopen : op = .open_ → (rl n.wal).1 = n.wal.recs ∧ (rp n.pwal).1 = n.pwal.recs) :
    LiveOk (stepG rl rp n op).1 (ackStep a op (stepG rl rp n op).2) := by
  cases op with
  | open_ =>
    obtain ⟨h1, h2⟩ := hopen rfl
    simp only [stepG, openWith, ackStep, Out.acked, if_true]
    intro lv hlv
    simp only [Option.some.injEq] at hlv
    subst hlv
    simp only [h1, h2]
    exact ⟨hi.log, hi.peers⟩
  | restart => simp only [stepG, ackStep, Out.acked, if_true]; intro lv hlv; simp at hlv
  | kill => simp only [stepG, ackStep, Out.acked, if_true]; intro lv hlv; simp at hlv
  | append es =>
    simp only [stepG]
    cases hv : n.live with
    | none => simp only [ackStep, Out.acked, Bool.false_eq_true, if_false]; exact h
    | some lv =>
      simp only [ackStep, Out.acked, if_true]
      intro lv' hlv'; simp only [Option.some.injEq] at hlv'; subst hlv'
      exact ⟨by simp only; rw [(h lv hv).1], (h lv hv).2⟩
  | truncate l =>
    simp only [stepG]
    cases hv : n.live with
    | none => simp only [ackStep, Out.acked, Bool.false_eq_true, if_false]; exact h
    | some lv =>
      simp only [ackStep, Out.acked, if_true]
      intro lv' hlv'; simp only [Option.some.injEq] at hlv'; subst hlv'
      exact ⟨by simp only; rw [(h lv hv).1], (h lv hv).2⟩
  | purge l =>
    simp only [stepG]
    cases hv : n.live with
    | none => simp only [ackStep, Out.acked, Bool.false_eq_true, if_false]; exact h
    | some lv =>
      simp only
      cases hm : memPurge lv.mem l with
      | none => simp only [ackStep, Out.acked, Bool.false_eq_true, if_false]; exact h
      | some m =>
        simp only [ackStep, Out.acked, if_true]
        intro lv' hlv'; simp only [Option.some.injEq] at hlv'; subst hlv'
        refine ⟨?_, (h lv hv).2⟩
        simp only
        unfold memPurge at hm
        split at hm
        · simp only [Option.some.injEq] at hm; rw [← hm, (h lv hv).1]
        · simp at hm
  | vote v =>
    simp only [stepG]
    cases hv : n.live with
    | none => simp only [ackStep, Out.acked, Bool.false_eq_true, if_false]; exact h
    | some lv =>
      simp only [ackStep, Out.acked, if_true]
      intro lv' hlv'; simp only [Option.some.injEq] at hlv'; subst hlv'
      exact ⟨by simp only; rw [(h lv hv).1], (h lv hv).2⟩
  | committed c =>
    simp only [stepG]
    cases hv : n.live with
    | none => simp only [ackStep, Out.acked, Bool.false_eq_true, if_false]; exact h
    | some lv =>
      simp only [ackStep, Out.acked, if_true]
      intro lv' hlv'; simp only [Option.some.injEq] at hlv'; subst hlv'
      exact ⟨by simp only; rw [(h lv hv).1], (h lv hv).2⟩
  | peer id port =>
    simp only [stepG]
    cases hv : n.live with
    | none => simp only [ackStep, Out.acked, Bool.false_eq_true, if_false]; exact h
    | some lv =>
      simp only
      by_cases hg : lv.peers.get? id = some port
      · simp only [hg, if_true, ackStep, Out.acked]
        intro lv' hlv'; rw [hv] at hlv'; simp only [Option.some.injEq] at hlv'; subst hlv'
        refine ⟨(h lv hv).1, ?_⟩
        intro k
        rw [AMap.get?_insert]
        by_cases hk : id = k
        · subst hk; simp [hg]
        · simp only [hk, if_false]; exact (h lv hv).2 k
      · simp only [hg, if_false, ackStep, Out.acked, if_true]
        intro lv' hlv'; simp only [Option.some.injEq] at hlv'; subst hlv'
        refine ⟨(h lv hv).1, ?_⟩
        intro k
        simp only
        rw [AMap.get?_insert, AMap.get?_insert]
        by_cases hk : id = k
        · simp [hk]
        · simp only [hk, if_false]; exact (h lv hv).2 k
  | state =>
    simp only [stepG]
    cases hv : n.live with
    | none => simp only [ackStep, Out.acked, Bool.false_eq_true, if_false]; exact h
    | some lv => simp only [ackStep, Out.acked, Bool.false_eq_true, if_false]; exact h

end WalrusVerif.LogStore
