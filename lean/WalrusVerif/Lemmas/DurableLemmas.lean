import WalrusVerif.Model.Durable
/-! Soundness of the executable trace checkers of Model/Durable.lean. -/
namespace WalrusVerif.Durable

theorem occursInB_sound {tr : Trace} {lo hi : Nat} {q : Ev → Bool} (h : occursInB tr lo hi q = true) : occursIn tr lo hi q := by
  unfold occursInB at h
  rw [List.any_eq_true] at h
  obtain ⟨m, hm, hb⟩ := h
  simp only [Bool.and_eq_true, decide_eq_true_eq] at hb
  have hlt : m < hi := List.mem_range.mp hm
  cases he : tr[m]? with
  | none => simp [he] at hb
  | some e => simp only [he] at hb; exact ⟨m, hb.1, hlt, e, he, hb.2⟩

theorem fileDurableB_sound {tr : Trace} {k f : Nat} (h : fileDurableB tr k f = true) : fileDurable tr k f := by
  unfold fileDurableB at h
  rw [Bool.or_eq_true] at h
  rcases h with h | h
  · left
    intro c hc
    simp only [Bool.not_eq_true', List.any_eq_false] at h
    have hmem : Ev.create f ∈ tr := List.mem_of_getElem? hc
    have := h _ hmem
    simp at this
  · right
    rw [List.any_eq_true] at h
    obtain ⟨c, hc, hb⟩ := h
    simp only [Bool.and_eq_true, beq_iff_eq] at hb
    exact ⟨c, List.mem_range.mp hc, hb.1, occursInB_sound hb.2⟩

theorem ackDisciplinedB_sound (tr : Trace) (h : ackDisciplinedB tr = true) : AckDisciplined tr := by
  intro a id ha
  unfold ackDisciplinedB at h
  rw [List.all_eq_true] at h
  have halt : a < tr.length := by
    rcases Nat.lt_or_ge a tr.length with h1 | h1
    · exact h1
    · rw [List.getElem?_eq_none h1] at ha; cases ha
  have := h a (List.mem_range.mpr halt)
  simp only [ha] at this
  unfold ackOK at this
  rw [List.any_eq_true] at this
  obtain ⟨j, hj, hb⟩ := this
  have hjlt : j < a := List.mem_range.mp hj
  cases he : tr[j]? with
  | none => simp [he] at hb
  | some e =>
    cases e with
    | write f id' s =>
      simp only [he, Bool.and_eq_true, beq_iff_eq, Bool.or_eq_true] at hb
      obtain ⟨⟨hid, hs⟩, hf⟩ := hb
      subst hid
      refine ⟨j, f, s, hjlt, he, ?_, fileDurableB_sound hf⟩
      rcases hs with hs | hs
      · exact Or.inl hs
      · exact Or.inr (occursInB_sound hs)
    | _ => simp [he] at hb

theorem readDisciplinedB_sound (tr : Trace) (h : readDisciplinedB tr = true) : ReadDisciplined tr := by
  intro a v ha
  unfold readDisciplinedB at h
  rw [List.all_eq_true] at h
  have halt : a < tr.length := by
    rcases Nat.lt_or_ge a tr.length with h1 | h1
    · exact h1
    · rw [List.getElem?_eq_none h1] at ha; cases ha
  have := h a (List.mem_range.mpr halt)
  simp only [ha] at this
  unfold readOK at this
  rw [List.any_eq_true] at this
  obtain ⟨j, hj, hb⟩ := this
  simp only [Bool.and_eq_true, beq_iff_eq] at hb
  exact ⟨j, List.mem_range.mp hj, hb.1, occursInB_sound hb.2⟩
end WalrusVerif.Durable
