import WalrusVerif.Model.Engine
import WalrusVerif.Lemmas.AMapLemmas
/-!
How friendly appends lay blocks out in a WAL file (storage-level model `Eng`): the write side of the recovery
theorems of Props/C06.lean.  "Friendly" = single-entry appends that succeed, entries that fit one unit
(`metaSz + len ≤ blockSize`), topic names of ordinary length, no injected faults, room in the current file.
-/
namespace WalrusVerif.Eng
open WalrusVerif

theorem markClean_fields (i : Inst) (t : Topic) (b : Bool) :
    (markClean i t b).writers = i.writers ∧ (markClean i t b).allocOff = i.allocOff ∧
    (markClean i t b).allocFile = i.allocFile ∧ (markClean i t b).allocId = i.allocId := by
  unfold markClean
  generalize (i.cleanStates.get? t).getD (0, true) = gc
  obtain ⟨g, cl⟩ := gc
  simp only
  split <;> exact ⟨rfl, rfl, rfl, rfl⟩

theorem incCount_fields (i : Inst) (t : Topic) (d : Nat) :
    (incCount i t d).writers = i.writers ∧ (incCount i t d).allocOff = i.allocOff ∧
    (incCount i t d).allocFile = i.allocFile ∧ (incCount i t d).allocId = i.allocId := by
  unfold incCount
  split <;> exact ⟨rfl, rfl, rfl, rfl⟩

/-- the block the allocator hands out next when the current file has room -/
def nextBlk (c : Cfg) (i : Inst) : Blk :=
  { id := i.allocId, file := i.allocFile, off := i.allocOff, limit := c.blockSize, used := 0 }

/-- what a friendly append does, as far as the layout is concerned -/
structure AppendEffect (c : Cfg) (p : Proc) (i : Inst) (t : Topic) (pay : Pay) (p' : Proc) (i' : Inst) : Prop where
  allocFile : i'.allocFile = i.allocFile
  cases :
    -- first append to the topic, or the entry does not fit the writer's block: a new block, the entry at its start
    ((i.writers.get? t = none ∨ ∃ w, i.writers.get? t = some w ∧ w.off + (c.metaSz + pay.len) > w.blk.limit) ∧
      p'.files = writeCell c p.files (nextBlk c i) 0 t pay ∧ i'.allocOff = i.allocOff + c.blockSize ∧
      (∀ t', i'.writers.get? t' =
        if t = t' then some { blk := nextBlk c i, off := c.metaSz + pay.len } else i.writers.get? t')) ∨
    -- the entry fits the writer's block
    (∃ w, i.writers.get? t = some w ∧ w.off + (c.metaSz + pay.len) ≤ w.blk.limit ∧
      p'.files = writeCell c p.files w.blk w.off t pay ∧ i'.allocOff = i.allocOff ∧
      (∀ t', i'.writers.get? t' =
        if t = t' then some { w with off := w.off + (c.metaSz + pay.len) } else i.writers.get? t'))

theorem allocBlock_unit (c : Cfg) (p : Proc) (i : Inst) (want : Nat) (h0 : 0 < want) (hbs : want ≤ c.blockSize)
    (hmax : c.blockSize ≤ c.maxAlloc) (hb0 : 0 < c.blockSize) (hroom : i.allocOff + c.blockSize ≤ c.fileSize) :
    ∃ p', allocBlock c p i want = some (p', { i with allocOff := i.allocOff + c.blockSize, allocId := i.allocId + 1 }, nextBlk c i) ∧
      p'.files = p.files := by
  unfold allocBlock
  have h1 : ¬ (want = 0 ∨ want > c.maxAlloc) := by omega
  have hu : (want + c.blockSize - 1) / c.blockSize = 1 := by
    apply Nat.div_eq_of_lt_le
    · omega
    · omega
  simp only [h1, if_false, hu, Nat.one_mul]
  have h2 : ¬ (i.allocOff + c.blockSize > c.fileSize) := by omega
  simp only [h2, if_false]
  exact ⟨_, rfl, rfl⟩

theorem append_friendly (c : Cfg) (p : Proc) (i : Inst) (t : Topic) (pay : Pay)
    (hm : 0 < c.metaSz) (hb0 : 0 < c.blockSize) (hmax : c.blockSize ≤ c.maxAlloc)
    (hlong : t.long = false) (hfit : c.metaSz + pay.len ≤ c.blockSize)
    (hroom : i.allocOff + c.blockSize ≤ c.fileSize)
    (hw : ∀ w, i.writers.get? t = some w → w.batching = false ∧ w.blk.limit = c.blockSize) :
    (appendForTopic c p i t pay).2.2 = .ok ∧
    AppendEffect c p i t pay (appendForTopic c p i t pay).1 (appendForTopic c p i t pay).2.1 := by
  have hbig : ¬ (c.metaSz + pay.len > c.maxAlloc) := by omega
  have hnf : ¬ ((none : Option Fault) = some ⟨0, 0⟩) := by simp
  obtain ⟨mw, moff, mfile, mid⟩ := markClean_fields i t false
  unfold appendForTopic
  simp only
  unfold getOrCreateWriter
  rw [mw]
  cases hwr : i.writers.get? t with
  | none =>
    -- a new writer on the next block
    simp only
    unfold getNextAvailableBlock
    have h1 : ¬ ((markClean i t false).allocOff ≥ c.fileSize) := by rw [moff]; omega
    simp only [h1, if_false]
    unfold writerWrite
    simp only [Bool.not_false, Bool.true_and, decide_eq_true_eq, hbig, if_false]
    unfold writerWriteCore
    have h2 : ¬ (0 + (c.metaSz + pay.len) > c.blockSize) := by omega
    simp only [Bool.false_eq_true, if_false, h2, hlong, hnf]
    refine ⟨trivial, ?_, Or.inl ⟨Or.inl hwr, ?_, ?_, ?_⟩⟩
    · exact (incCount_fields _ _ _).2.2.1.trans mfile
    · simp only [nextBlk, moff, mfile, mid]
    · exact (incCount_fields _ _ _).2.1.trans (by simp only [moff])
    · intro t'
      rw [(incCount_fields _ _ _).1]
      simp only [nextBlk, moff, mfile, mid, mw, Nat.zero_add]
      rw [AMap.get?_insert]
      by_cases ht : t = t'
      · simp [ht]
      · simp only [ht, if_false]; rw [AMap.get?_insert_ne _ _ _ _ ht]
  | some w =>
    obtain ⟨hwb, hwl⟩ := hw w hwr
    simp only
    unfold writerWrite
    simp only [hwb, Bool.not_false, Bool.true_and, decide_eq_true_eq, hbig, if_false]
    unfold writerWriteCore
    simp only [hwb, Bool.false_eq_true, if_false]
    by_cases hrot : w.off + (c.metaSz + pay.len) > w.blk.limit
    · -- rotation
      simp only [hrot, if_true]
      unfold sealBlock
      simp only
      have hfields : (appendBlockToChain (markClean i t false) t { w.blk with used := w.off }).allocOff = i.allocOff ∧
          (appendBlockToChain (markClean i t false) t { w.blk with used := w.off }).allocId = i.allocId ∧
          (appendBlockToChain (markClean i t false) t { w.blk with used := w.off }).allocFile = i.allocFile ∧
          (appendBlockToChain (markClean i t false) t { w.blk with used := w.off }).writers = i.writers := by
        unfold appendBlockToChain; simp only; exact ⟨moff, mid, mfile, mw⟩
      obtain ⟨p2, ha, hpf⟩ := allocBlock_unit c { p with trk := p.trk.setBlockUnlocked w.blk.id }
        (appendBlockToChain (markClean i t false) t { w.blk with used := w.off }) (c.metaSz + pay.len)
        (by omega) hfit hmax hb0 (by rw [hfields.1]; exact hroom)
      rw [ha]
      simp only [hlong, hnf, Bool.false_eq_true, if_false]
      refine ⟨trivial, ?_, Or.inl ⟨Or.inr ⟨w, hwr, hrot⟩, ?_, ?_, ?_⟩⟩
      · exact (incCount_fields _ _ _).2.2.1.trans hfields.2.2.1
      · simp only [hpf, nextBlk, hfields.1, hfields.2.1, hfields.2.2.1]
      · exact (incCount_fields _ _ _).2.1.trans (by simp only [hfields.1])
      · intro t'
        rw [(incCount_fields _ _ _).1]
        simp only [nextBlk, hfields.1, hfields.2.1, hfields.2.2.1, hfields.2.2.2]
        rw [AMap.get?_insert, Nat.zero_add]
    · -- fits
      simp only [hrot, if_false, hlong, hnf, Bool.false_eq_true]
      refine ⟨trivial, ?_, Or.inr ⟨w, hwr, Nat.le_of_not_gt hrot, rfl, ?_, ?_⟩⟩
      · exact (incCount_fields _ _ _).2.2.1.trans mfile
      · exact (incCount_fields _ _ _).2.1.trans moff
      · intro t'
        rw [(incCount_fields _ _ _).1]
        simp only [mw]
        rw [AMap.get?_insert]

end WalrusVerif.Eng

namespace WalrusVerif.Eng
open WalrusVerif

/-- a batch of ONE entry (what the data plane of distributed-walrus issues: `batch_append_for_topic(key, &[data])`)
has the layout effect of a single append -/
theorem batch1_friendly (c : Cfg) (p : Proc) (i : Inst) (t : Topic) (pay : Pay)
    (hm : 0 < c.metaSz) (hb0 : 0 < c.blockSize) (hmax : c.blockSize ≤ c.maxAlloc) (hcap : 0 < c.cap)
    (hmb : c.blockSize ≤ c.maxBatchBytes)
    (hlong : t.long = false) (hfit : c.metaSz + pay.len ≤ c.blockSize)
    (hroom : i.allocOff + c.blockSize ≤ c.fileSize)
    (hw : ∀ w, i.writers.get? t = some w → w.batching = false ∧ w.blk.limit = c.blockSize) :
    (batchAppendForTopic c p i t [pay]).2.2 = .ok ∧
    AppendEffect c p i t pay (batchAppendForTopic c p i t [pay]).1 (batchAppendForTopic c p i t [pay]).2.1 := by
  have hbig : ¬ (c.metaSz + pay.len > c.maxAlloc) := by omega
  have hnf : batchFails none 1 = false := rfl
  obtain ⟨mw, moff, mfile, mid⟩ := markClean_fields i t false
  have hpre : (decide ([pay].length ≤ c.cap) && decide (([pay].map fun x => c.metaSz + x.len).sum ≤ c.maxBatchBytes) &&
      [pay].any (fun x => decide (c.metaSz + x.len > c.maxAlloc))) = false := by
    simp [hbig]
  have h1 : ¬ ([pay].length > c.cap) := by simp; omega
  have h2 : ¬ (([pay].map fun x => c.metaSz + x.len).sum > c.maxBatchBytes) := by simp; omega
  unfold batchAppendForTopic
  simp only
  unfold getOrCreateWriter
  rw [mw]
  cases hwr : i.writers.get? t with
  | none =>
    simp only
    unfold getNextAvailableBlock
    have h0 : ¬ ((markClean i t false).allocOff ≥ c.fileSize) := by rw [moff]; omega
    simp only [h0, if_false]
    unfold writerBatchWrite
    rw [hpre]
    simp only [Bool.false_eq_true, if_false]
    unfold writerBatchWriteCore
    simp only [h1, h2, if_false, List.isEmpty_cons, Bool.false_eq_true, hlong]
    unfold planBatch
    have h3 : c.blockSize - 0 ≥ c.metaSz + pay.len := by omega
    simp only [h3, if_true]
    unfold planBatch
    simp only [List.reverse_cons, List.reverse_nil, List.nil_append, List.length_singleton, hnf, Bool.false_eq_true,
      if_false, List.foldl_cons, List.foldl_nil]
    refine ⟨trivial, ?_, Or.inl ⟨Or.inl hwr, ?_, ?_, ?_⟩⟩
    · exact (incCount_fields _ _ _).2.2.1.trans mfile
    · simp only [nextBlk, moff, mfile, mid]
    · exact (incCount_fields _ _ _).2.1.trans (by simp only [moff])
    · intro t'
      rw [(incCount_fields _ _ _).1]
      simp only [nextBlk, moff, mfile, mid, mw, Nat.zero_add]
      rw [AMap.get?_insert]
      by_cases ht : t = t'
      · simp [ht]
      · simp only [ht, if_false]; rw [AMap.get?_insert_ne _ _ _ _ ht]
  | some w =>
    obtain ⟨hwb, hwl⟩ := hw w hwr
    simp only
    unfold writerBatchWrite
    rw [hpre]
    simp only [Bool.false_eq_true, if_false]
    unfold writerBatchWriteCore
    simp only [h1, h2, if_false, List.isEmpty_cons, Bool.false_eq_true, hlong, hwb]
    unfold planBatch
    by_cases hfits : w.blk.limit - w.off ≥ c.metaSz + pay.len
    · simp only [hfits, if_true]
      unfold planBatch
      simp only [List.reverse_cons, List.reverse_nil, List.nil_append, List.length_singleton, hnf, Bool.false_eq_true,
        if_false, List.foldl_cons, List.foldl_nil]
      by_cases hle : w.off ≤ w.blk.limit
      · refine ⟨trivial, ?_, Or.inr ⟨w, hwr, by omega, rfl, ?_, ?_⟩⟩
        · exact (incCount_fields _ _ _).2.2.1.trans mfile
        · exact (incCount_fields _ _ _).2.1.trans moff
        · intro t'
          rw [(incCount_fields _ _ _).1]
          simp only [mw]
          rw [AMap.get?_insert]
          by_cases ht : t = t' <;> simp [ht, hwb]
      · exfalso; omega
    · simp only [hfits, if_false]
      unfold sealBlock
      simp only
      have hfields : (appendBlockToChain (markClean i t false) t { w.blk with used := w.off }).allocOff = i.allocOff ∧
          (appendBlockToChain (markClean i t false) t { w.blk with used := w.off }).allocId = i.allocId ∧
          (appendBlockToChain (markClean i t false) t { w.blk with used := w.off }).allocFile = i.allocFile ∧
          (appendBlockToChain (markClean i t false) t { w.blk with used := w.off }).writers = i.writers := by
        unfold appendBlockToChain; simp only; exact ⟨moff, mid, mfile, mw⟩
      have hmaxeq : max (c.metaSz + pay.len) c.blockSize = c.blockSize := Nat.max_eq_right hfit
      rw [hmaxeq]
      obtain ⟨p2, ha, hpf⟩ := allocBlock_unit c { p with trk := p.trk.setBlockUnlocked w.blk.id }
        (appendBlockToChain (markClean i t false) t { w.blk with used := w.off }) c.blockSize
        hb0 (Nat.le_refl _) hmax hb0 (by rw [hfields.1]; exact hroom)
      rw [ha]
      simp only
      unfold planBatch
      simp only [List.reverse_cons, List.reverse_nil, List.nil_append, List.length_singleton, hnf, Bool.false_eq_true,
        if_false, List.foldl_cons, List.foldl_nil]
      refine ⟨trivial, ?_, Or.inl ⟨Or.inr ⟨w, hwr, by omega⟩, ?_, ?_, ?_⟩⟩
      · exact (incCount_fields _ _ _).2.2.1.trans hfields.2.2.1
      · simp only [hpf, nextBlk, hfields.1, hfields.2.1, hfields.2.2.1]
      · exact (incCount_fields _ _ _).2.1.trans (by simp only [hfields.1])
      · intro t'
        rw [(incCount_fields _ _ _).1]
        simp only [nextBlk, hfields.1, hfields.2.1, hfields.2.2.1, hfields.2.2.2]
        rw [AMap.get?_insert]

end WalrusVerif.Eng

namespace WalrusVerif.Eng
open WalrusVerif

/-! ### cells -/

theorem cellAt_append_some (cs : List Cell) (x y : Cell) (o : Nat) (h : cellAt cs o = some y) :
    cellAt (cs ++ [x]) o = some y := by
  unfold cellAt at *
  rw [List.find?_append, h]; rfl

theorem cellAt_append_none (cs : List Cell) (x : Cell) (o : Nat) (h : cellAt cs o = none) :
    cellAt (cs ++ [x]) o = if x.off = o then some x else none := by
  unfold cellAt at *
  rw [List.find?_append, h]
  simp only [Option.none_or, List.find?_cons, List.find?_nil]
  by_cases e : x.off = o
  · simp [e]
  · have : (x.off == o) = false := by simpa using e
    simp [this, e]

theorem clobber_eq_self (c : Cfg) (cs : List Cell) (lo hi : Nat)
    (h : ∀ y ∈ cs, ¬ (y.off < hi ∧ lo < y.stop c)) : clobber c cs lo hi = cs := by
  unfold clobber
  apply List.filter_eq_self.mpr
  intro y hy
  have := h y hy
  simp only [Bool.not_eq_true', Bool.and_eq_false_iff, decide_eq_false_iff_not]
  by_cases h1 : y.off < hi
  · right; intro h2; exact this ⟨h1, h2⟩
  · left; exact h1

theorem fileCells_writeCell (c : Cfg) (files : List FileSt) (b : Blk) (inOff : Nat) (t : Topic) (pay : Pay) (f : Nat) :
    fileCells (writeCell c files b inOff t pay) f =
      if f = b.file ∧ f < files.length then
        clobber c (fileCells files f) (b.off + inOff) (b.off + inOff + c.metaSz + pay.len) ++
          [{ off := b.off + inOff, topic := t, pay := pay }]
      else fileCells files f := by
  unfold writeCell updFileCells fileCells
  simp only [List.getElem?_mapIdx]
  by_cases hf : f < files.length
  · rw [List.getElem?_eq_getElem hf]
    simp only [Option.map_some]
    by_cases e : f = b.file
    · simp [e, hf, e ▸ hf]
    · simp [e]
  · have : files[f]? = none := List.getElem?_eq_none (Nat.le_of_not_lt hf)
    simp [this, hf]

end WalrusVerif.Eng

namespace WalrusVerif.Eng
open WalrusVerif

/-! ### reads leave the allocator and the writers alone -/

/-- what the write path of an instance reads or writes besides the files -/
def Inst.wside (i : Inst) : Nat × Nat × Nat × AMap Topic Writer := (i.allocFile, i.allocOff, i.allocId, i.writers)

@[simp] theorem wside_appendBlockToChain (i : Inst) (t : Topic) (b : Blk) : (appendBlockToChain i t b).wside = i.wside := by
  unfold appendBlockToChain Inst.wside; rfl
@[simp] theorem wside_incCount (i : Inst) (t : Topic) (d : Nat) : (incCount i t d).wside = i.wside := by
  unfold incCount Inst.wside; split <;> rfl
@[simp] theorem wside_decCount (i : Inst) (t : Topic) (d : Nat) : (decCount i t d).wside = i.wside := by
  unfold decCount Inst.wside; split <;> rfl
@[simp] theorem wside_putReader (i : Inst) (t : Topic) (x : ColInfo) : (putReader i t x).wside = i.wside := rfl
@[simp] theorem wside_setIndex (i : Inst) (t : Topic) (x : Pos) : (setIndex i t x).wside = i.wside := rfl

theorem wside_readNextLoop (c : Cfg) (t : Topic) (cp : Bool) (fuel : Nat) (p : Proc) (i : Inst) (info : ColInfo) :
    (readNextLoop c t cp fuel p i info).2.1.wside = i.wside := by
  induction fuel generalizing p i info with
  | zero => rfl
  | succ n ih =>
    unfold readNextLoop
    split
    · split
      · exact ih _ _ _
      · split
        · split
          · simp only
            generalize shouldPersist i.mode _ false = sp
            obtain ⟨info', persist⟩ := sp
            cases persist <;> simp
          · rfl
        · rfl
    · split
      · rfl
      · rename_i w hw
        simp only
        by_cases hcp : cp = true <;> by_cases hin : info.tailId = w.blk.id <;>
          simp only [hcp, hin, if_false, if_true, true_and, false_and, not_true_eq_false, not_false_eq_true,
            Bool.false_eq_true] <;>
          (repeat' split) <;> simp

theorem wside_readNext (c : Cfg) (p : Proc) (i : Inst) (t : Topic) (cp : Bool) :
    (readNext c p i t cp).2.1.wside = i.wside := by
  unfold readNext; exact wside_readNextLoop ..

theorem wside_statefulCommit (i : Inst) (t : Topic) (info : ColInfo) (ps : PState) (cp : Bool) :
    (statefulCommit i t info ps cp).wside = i.wside := by
  unfold statefulCommit
  by_cases h1 : ps.parsed > 0 ∧ cp = true
  · simp only [h1, and_self, if_true]
    generalize commitBatch i.mode info ps info.chain.length = r
    obtain ⟨info', pos⟩ := r
    cases pos <;> simp
  · simp only [h1, if_false]
    split <;> simp

theorem wside_batchRead (c : Cfg) (p : Proc) (i : Inst) (t : Topic) (m : Nat) (cp : Bool) (st : Option Nat) :
    (batchRead c p i t m cp st).2.1.wside = i.wside := by
  unfold batchRead
  cases st with
  | some r => simp only; split <;> rfl
  | none =>
    simp only
    have h : (statefulPlan c p i t m cp).i.wside = i.wside := by unfold statefulPlan; rfl
    split
    · exact h
    · rw [wside_statefulCommit]; exact h

end WalrusVerif.Eng

namespace WalrusVerif.Eng
open WalrusVerif

/-! ### the planning phase of a batch of one-unit entries -/

/-- where the entries of a batch to one topic land: (block offset, in-block offset, payload) for each, and the
writer's block offset, in-block offset and the allocator offset afterwards -/
def placeAll (c : Cfg) : List Pay → Nat → Nat → Nat → List (Nat × Nat × Pay) × Nat × Nat × Nat
  | [], bo, off, aoff => ([], bo, off, aoff)
  | p :: r, bo, off, aoff =>
    if off + (c.metaSz + p.len) ≤ c.blockSize then
      ((bo, off, p) :: (placeAll c r bo (off + (c.metaSz + p.len)) aoff).1, (placeAll c r bo (off + (c.metaSz + p.len)) aoff).2)
    else
      ((aoff, 0, p) :: (placeAll c r aoff (c.metaSz + p.len) (aoff + c.blockSize)).1,
        (placeAll c r aoff (c.metaSz + p.len) (aoff + c.blockSize)).2)

theorem plan_friendly (c : Cfg) (t : Topic) (hm : 0 < c.metaSz) (hb0 : 0 < c.blockSize) (hmax : c.blockSize ≤ c.maxAlloc)
    (ps : List Pay) :
    ∀ (p : Proc) (i : Inst) (b : Blk) (off : Nat) (acc : List (Blk × Nat × Pay)),
      b.limit = c.blockSize → off ≤ c.blockSize → b.file = i.allocFile →
      (∀ q ∈ ps, c.metaSz + q.len ≤ c.blockSize) → i.allocOff + ps.length * c.blockSize ≤ c.fileSize →
      ∃ p' i' nb off' items, planBatch c t ps p i b off acc = (p', i', nb, some (off', acc.reverse ++ items)) ∧
        p'.files = p.files ∧ i'.allocFile = i.allocFile ∧ i'.writers = i.writers ∧
        nb.limit = c.blockSize ∧ nb.file = i.allocFile ∧
        (nb.off, off', i'.allocOff) = (placeAll c ps b.off off i.allocOff).2 ∧
        items.map (fun x => (x.1.off, x.2.1, x.2.2)) = (placeAll c ps b.off off i.allocOff).1 ∧
        (∀ x ∈ items, x.1.file = i.allocFile) := by
  induction ps with
  | nil =>
    intro p i b off acc hl _ hf _ _
    refine ⟨p, i, b, off, [], by simp [planBatch], rfl, rfl, rfl, hl, hf, ?_, ?_, by simp⟩ <;> simp [placeAll]
  | cons q r ih =>
    intro p i b off acc hl hoff hf hfit hroom
    have hq := hfit q List.mem_cons_self
    have hr : ∀ x ∈ r, c.metaSz + x.len ≤ c.blockSize := fun x hx => hfit x (List.mem_cons_of_mem _ hx)
    simp only [List.length_cons, Nat.succ_mul] at hroom
    unfold planBatch placeAll
    by_cases hfits : off + (c.metaSz + q.len) ≤ c.blockSize
    · have h1 : b.limit - off ≥ c.metaSz + q.len := by rw [hl]; omega
      simp only [h1, hfits, if_true]
      obtain ⟨p', i', nb, off', items, he, h2, h3, h4, h5, h6, h7, h8, h9⟩ :=
        ih p i b (off + (c.metaSz + q.len)) ((b, off, q) :: acc) hl hfits hf hr (by omega)
      refine ⟨p', i', nb, off', (b, off, q) :: items, ?_, h2, h3, h4, h5, h6, h7, ?_, ?_⟩
      · rw [he]; simp
      · simp only [List.map_cons]; rw [h8]
      · intro x hx; rw [List.mem_cons] at hx; rcases hx with hx | hx
        · subst hx; exact hf
        · exact h9 x hx
    · have h1 : ¬ (b.limit - off ≥ c.metaSz + q.len) := by rw [hl]; omega
      simp only [h1, hfits, if_false]
      unfold sealBlock
      simp only
      have hfields : (appendBlockToChain i t { b with used := off }).allocOff = i.allocOff ∧
          (appendBlockToChain i t { b with used := off }).allocId = i.allocId ∧
          (appendBlockToChain i t { b with used := off }).allocFile = i.allocFile ∧
          (appendBlockToChain i t { b with used := off }).writers = i.writers := by
        unfold appendBlockToChain; simp only; refine ⟨?_, ?_, ?_, ?_⟩ <;> first | rfl | trivial
      have hmaxeq : max (c.metaSz + q.len) c.blockSize = c.blockSize := Nat.max_eq_right hq
      rw [hmaxeq]
      obtain ⟨p2, ha, hpf⟩ := allocBlock_unit c { p with trk := p.trk.setBlockUnlocked b.id }
        (appendBlockToChain i t { b with used := off }) c.blockSize hb0 (Nat.le_refl _) hmax hb0
        (by rw [hfields.1]; omega)
      rw [ha]
      simp only
      obtain ⟨p', i', nb, off', items, he, h2, h3, h4, h5, h6, h7, h8, h9⟩ :=
        ih p2 { (appendBlockToChain i t { b with used := off }) with
                  allocOff := (appendBlockToChain i t { b with used := off }).allocOff + c.blockSize,
                  allocId := (appendBlockToChain i t { b with used := off }).allocId + 1 }
          (nextBlk c (appendBlockToChain i t { b with used := off })) (c.metaSz + q.len)
          ((nextBlk c (appendBlockToChain i t { b with used := off }), 0, q) :: acc)
          rfl hq (by simp only [nextBlk]) hr (by simp only [hfields.1]; omega)
      simp only [nextBlk, hfields.1, hfields.2.2.1, hfields.2.2.2] at h3 h4 h6 h7 h8 h9
      refine ⟨p', i', nb, off', (nextBlk c (appendBlockToChain i t { b with used := off }), 0, q) :: items,
        ?_, by rw [h2, hpf], h3, h4, h5, h6, h7, ?_, ?_⟩
      · rw [he]; simp
      · simp only [List.map_cons, nextBlk, hfields.1]; rw [h8]
      · intro x hx; rw [List.mem_cons] at hx; rcases hx with hx | hx
        · subst hx; simp only [nextBlk, hfields.2.2.1]
        · exact h9 x hx

end WalrusVerif.Eng

namespace WalrusVerif.Eng
open WalrusVerif

/-- the cells after writing the placed entries of topic `t`, in order -/
def cellsAfter (c : Cfg) (t : Topic) (cells : List Cell) (places : List (Nat × Nat × Pay)) : List Cell :=
  places.foldl (fun cs x => clobber c cs (x.1 + x.2.1) (x.1 + x.2.1 + c.metaSz + x.2.2.len) ++ [⟨x.1 + x.2.1, t, x.2.2⟩]) cells

theorem writeCell_length' (c : Cfg) (files : List FileSt) (b : Blk) (inOff : Nat) (t : Topic) (pay : Pay) :
    (writeCell c files b inOff t pay).length = files.length := by
  unfold writeCell updFileCells; simp

theorem fileCells_plan (c : Cfg) (t : Topic) (f : Nat) (plan : List (Blk × Nat × Pay)) :
    ∀ (files : List FileSt), f < files.length → (∀ x ∈ plan, x.1.file = f) →
      fileCells (plan.foldl (fun fs (x : Blk × Nat × Pay) => writeCell c fs x.1 x.2.1 t x.2.2) files) f =
        cellsAfter c t (fileCells files f) (plan.map fun x => (x.1.off, x.2.1, x.2.2)) ∧
      (plan.foldl (fun fs (x : Blk × Nat × Pay) => writeCell c fs x.1 x.2.1 t x.2.2) files).length = files.length := by
  induction plan with
  | nil => intro files _ _; exact ⟨rfl, rfl⟩
  | cons x r ih =>
    intro files hf hall
    simp only [List.foldl_cons, List.map_cons]
    have hx := hall x List.mem_cons_self
    obtain ⟨h1, h2⟩ := ih (writeCell c files x.1 x.2.1 t x.2.2) (by rw [writeCell_length']; exact hf)
      (fun y hy => hall y (List.mem_cons_of_mem _ hy))
    refine ⟨?_, by rw [h2, writeCell_length']⟩
    rw [h1, fileCells_writeCell]
    simp only [hx, hf, and_self, if_true]
    unfold cellsAfter
    simp only [List.foldl_cons]

/-- the layout-relevant part of a writer -/
def wproj (w : Writer) : Nat × Nat × Nat × Nat × Bool := (w.blk.file, w.blk.off, w.blk.limit, w.off, w.batching)

/-- what a friendly batch of several one-unit entries does, as far as the layout is concerned: the entries land
where `placeAll` says, starting from the writer's position (or from a fresh block when the topic has no writer) -/
structure BatchEffect (c : Cfg) (p : Proc) (i : Inst) (t : Topic) (ps : List Pay) (p' : Proc) (i' : Inst) : Prop where
  allocFile : i'.allocFile = i.allocFile
  len : p'.files.length = p.files.length
  eff : ∃ bo off aoff0,
    ((i.writers.get? t = none ∧ bo = i.allocOff ∧ off = 0 ∧ aoff0 = i.allocOff + c.blockSize) ∨
      (∃ w, i.writers.get? t = some w ∧ bo = w.blk.off ∧ off = w.off ∧ aoff0 = i.allocOff)) ∧
    fileCells p'.files i.allocFile = cellsAfter c t (fileCells p.files i.allocFile) (placeAll c ps bo off aoff0).1 ∧
    i'.allocOff = (placeAll c ps bo off aoff0).2.2.2 ∧
    (∀ t', (i'.writers.get? t').map wproj =
      if t = t' then some (i.allocFile, (placeAll c ps bo off aoff0).2.1, c.blockSize, (placeAll c ps bo off aoff0).2.2.1, false)
      else (i.writers.get? t').map wproj)

theorem batch_friendly (c : Cfg) (p : Proc) (i : Inst) (t : Topic) (ps : List Pay)
    (hm : 0 < c.metaSz) (hb0 : 0 < c.blockSize) (hmax : c.blockSize ≤ c.maxAlloc)
    (hlong : t.long = false) (hne : ps ≠ []) (hfit : ∀ q ∈ ps, c.metaSz + q.len ≤ c.blockSize)
    (hcap : ps.length ≤ c.cap) (hbytes : (ps.map fun x => c.metaSz + x.len).sum ≤ c.maxBatchBytes)
    (hroom : i.allocOff + (ps.length + 1) * c.blockSize ≤ c.fileSize) (hin : i.allocFile < p.files.length)
    (hw : ∀ w, i.writers.get? t = some w →
      w.batching = false ∧ w.blk.limit = c.blockSize ∧ w.blk.file = i.allocFile ∧ w.off ≤ c.blockSize) :
    (batchAppendForTopic c p i t ps).2.2 = .ok ∧
    BatchEffect c p i t ps (batchAppendForTopic c p i t ps).1 (batchAppendForTopic c p i t ps).2.1 := by
  have hnf : ∀ n, batchFails none n = false := fun _ => rfl
  obtain ⟨mw, moff, mfile, mid⟩ := markClean_fields i t false
  have hpre : (decide (ps.length ≤ c.cap) && decide ((ps.map fun x => c.metaSz + x.len).sum ≤ c.maxBatchBytes) &&
      ps.any (fun x => decide (c.metaSz + x.len > c.maxAlloc))) = false := by
    rw [Bool.and_eq_false_iff]; right
    rw [List.any_eq_false]
    intro x hx; have := hfit x hx; simp; omega
  have h1 : ¬ (ps.length > c.cap) := by omega
  have h2 : ¬ ((ps.map fun x => c.metaSz + x.len).sum > c.maxBatchBytes) := by omega
  have h3 : ps.isEmpty = false := by cases ps <;> simp_all
  have hroom' : i.allocOff + c.blockSize + ps.length * c.blockSize ≤ c.fileSize := by
    rw [Nat.succ_mul] at hroom; omega
  unfold batchAppendForTopic
  simp only
  unfold getOrCreateWriter
  rw [mw]
  cases hwr : i.writers.get? t with
  | none =>
    simp only
    unfold getNextAvailableBlock
    have h0 : ¬ ((markClean i t false).allocOff ≥ c.fileSize) := by rw [moff]; omega
    simp only [h0, if_false]
    unfold writerBatchWrite
    rw [hpre]
    simp only [Bool.false_eq_true, if_false]
    unfold writerBatchWriteCore
    simp only [h1, h2, h3, if_false, Bool.false_eq_true, hlong]
    obtain ⟨p', i', nb, off', items, he, hf1, hf2, hf3, hf4, hf5, hf6, hf7, hf8⟩ := plan_friendly c t hm hb0 hmax ps
      { p with trk := (((p.trk.registerBlock (markClean i t false).allocId (markClean i t false).allocFile).registerFileIfAbsent
          (markClean i t false).allocFile).addBlockToFileState (markClean i t false).allocFile).setBlockLocked (markClean i t false).allocId }
      { (markClean i t false) with
          allocOff := (markClean i t false).allocOff + c.blockSize, allocId := (markClean i t false).allocId + 1,
          writers := (markClean i t false).writers.insert t
            { blk := { id := (markClean i t false).allocId, file := (markClean i t false).allocFile,
                       off := (markClean i t false).allocOff, limit := c.blockSize, used := 0 }, off := 0 } }
      { id := (markClean i t false).allocId, file := (markClean i t false).allocFile,
        off := (markClean i t false).allocOff, limit := c.blockSize, used := 0 } 0 []
      rfl (Nat.zero_le _) rfl hfit (by simp only [moff]; exact hroom')
    rw [he]
    simp only [List.reverse_nil, List.nil_append, hnf, Bool.false_eq_true, if_false]
    simp only [moff, mfile] at hf2 hf5 hf6 hf7 hf8
    obtain ⟨hc1, hc2⟩ := fileCells_plan c t i.allocFile items p'.files (by rw [hf1]; exact hin) hf8
    refine ⟨trivial, ?_, ?_, ?_⟩
    · exact (incCount_fields _ _ _).2.2.1.trans hf2
    · show (List.foldl _ p'.files items).length = p.files.length
      rw [hc2, hf1]
    · refine ⟨i.allocOff, 0, i.allocOff + c.blockSize, Or.inl ⟨hwr, rfl, rfl, rfl⟩, ?_, ?_, ?_⟩
      · show fileCells (List.foldl _ p'.files items) i.allocFile = _
        rw [hc1, hf7, hf1]
      · rw [(incCount_fields _ _ _).2.1]
        have := congrArg (fun x => x.2.2) hf6
        simp only at this
        exact this
      · intro t'
        rw [(incCount_fields _ _ _).1]
        simp only
        rw [AMap.get?_insert, hf3]
        by_cases ht : t = t'
        · have e1 := congrArg (fun x => x.1) hf6
          have e2 := congrArg (fun x => x.2.1) hf6
          simp only at e1 e2
          simp [ht, wproj, hf4, hf5, e1, e2]
        · simp only [ht, if_false]
          rw [AMap.get?_insert_ne _ _ _ _ ht, mw]
  | some w =>
    obtain ⟨hwb, hwl, hwf, hwo⟩ := hw w hwr
    simp only
    unfold writerBatchWrite
    rw [hpre]
    simp only [Bool.false_eq_true, if_false]
    unfold writerBatchWriteCore
    simp only [h1, h2, h3, if_false, Bool.false_eq_true, hlong, hwb]
    obtain ⟨p', i', nb, off', items, he, hf1, hf2, hf3, hf4, hf5, hf6, hf7, hf8⟩ := plan_friendly c t hm hb0 hmax ps
      p (markClean i t false) w.blk w.off [] hwl hwo (by rw [mfile]; exact hwf) hfit
      (by rw [moff]; rw [Nat.succ_mul] at hroom; omega)
    rw [he]
    simp only [List.reverse_nil, List.nil_append, hnf, Bool.false_eq_true, if_false]
    simp only [moff, mfile] at hf2 hf5 hf6 hf7 hf8
    obtain ⟨hc1, hc2⟩ := fileCells_plan c t i.allocFile items p'.files (by rw [hf1]; exact hin) hf8
    refine ⟨trivial, ?_, ?_, ?_⟩
    · exact (incCount_fields _ _ _).2.2.1.trans hf2
    · show (List.foldl _ p'.files items).length = p.files.length
      rw [hc2, hf1]
    · refine ⟨w.blk.off, w.off, i.allocOff, Or.inr ⟨w, hwr, rfl, rfl, rfl⟩, ?_, ?_, ?_⟩
      · show fileCells (List.foldl _ p'.files items) i.allocFile = _
        rw [hc1, hf7, hf1]
      · rw [(incCount_fields _ _ _).2.1]
        have := congrArg (fun x => x.2.2) hf6
        simp only at this
        exact this
      · intro t'
        rw [(incCount_fields _ _ _).1]
        simp only
        rw [AMap.get?_insert, hf3, mw]
        by_cases ht : t = t'
        · have e1 := congrArg (fun x => x.1) hf6
          have e2 := congrArg (fun x => x.2.1) hf6
          simp only at e1 e2
          simp [ht, wproj, hf4, hf5, e1, e2, hwb]
        · simp only [ht, if_false]

end WalrusVerif.Eng
