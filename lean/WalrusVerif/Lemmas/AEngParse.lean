import WalrusVerif.Lemmas.AEngInv
import WalrusVerif.Lemmas.AEngRead
/-! The batch-read parser on ranges that lie on entry boundaries of the topic's blocks. -/
namespace WalrusVerif.AEng
open WalrusVerif WalrusVerif.Eng

/-- where the parser's position fields point, as a global entry index `g` -/
def PosOK (c : Cfg) (a : ATopic) (s : APState) (g : Nat) : Prop :=
  if s.sawTail then
    ∃ w j, a.writer = some w ∧ s.finalTailId = w.id ∧ j ≤ w.es.length ∧
      s.finalTailOff = bytes c (w.es.take j) ∧ g = (chainEs a.chain).length + j
  else
    ∃ b j, a.chain[s.finalIdx]? = some b ∧ a.curIdx ≤ s.finalIdx ∧ j ≤ b.es.length ∧
      s.finalOff = bytes c (b.es.take j) ∧ g = before a.chain s.finalIdx + j

structure PSInv (c : Cfg) (a : ATopic) (k0 : Nat) (s : APState) : Prop where
  entries : s.entries.reverse = (((log a).drop k0).take s.parsed).map (·, 0)
  trim0 : s.trim = 0
  len : s.entries.length = s.parsed
  inLog : k0 + s.parsed ≤ (log a).length
  pos : s.parsed > 0 → PosOK c a s (k0 + s.parsed)

/-- a planned range that starts on a boundary of a block of the topic; `base` is the global index
of the block's first entry -/
structure RangeOK (c : Cfg) (a : ATopic) (r : ARange) (base j0 : Nat) : Prop where
  j0_le : j0 ≤ r.es.length
  start_eq : r.start = bytes c (r.es.take j0)
  stop_le : r.stop ≤ bytes c r.es
  logAt : ∀ j e, r.es[j]? = some e → (log a)[base + j]? = some e
  pos : if r.isTail then
          ∃ w, a.writer = some w ∧ r.blkId = w.id ∧ r.es = w.es ∧ base = (chainEs a.chain).length
        else
          ∃ b, a.chain[r.chainIdx]? = some b ∧ r.es = b.es ∧ base = before a.chain r.chainIdx ∧ a.curIdx ≤ r.chainIdx

theorem take_succ_drop {α : Type} (l : List α) (k m : Nat) (x : α) (h : l[k + m]? = some x) :
    (l.drop k).take (m + 1) = (l.drop k).take m ++ [x] := by
  have h' : (l.drop k)[m]? = some x := by rw [List.getElem?_drop]; exact h
  rw [List.take_succ, h']; rfl

/-- the parser's inner loop over one good range -/
theorem parseRange_spec (c : Cfg) (hm : 0 < c.metaSz) (a : ATopic) (k0 maxB : Nat) (r : ARange) (base j0 : Nat)
    (hr : RangeOK c a r base j0) :
    ∀ (fuel bo : Nat) (s : APState) (j : Nat), PSInv c a k0 s → (r.isTail = false → s.sawTail = false) →
      j0 ≤ j → j ≤ r.es.length →
      r.start + bo = bytes c (r.es.take j) → k0 + s.parsed = base + j → (r.stop - r.start) - bo < fuel →
      PSInv c a k0 (parseRange c maxB r fuel bo s) ∧ s.parsed ≤ (parseRange c maxB r fuel bo s).parsed ∧
        (r.isTail = false → (parseRange c maxB r fuel bo s).sawTail = false) ∧
        ((parseRange c maxB r fuel bo s).stop = true ∨ (parseRange c maxB r fuel bo s).entries.length ≥ c.cap ∨
          r.stop < bytes c r.es ∨ (k0 + (parseRange c maxB r fuel bo s).parsed = base + r.es.length)) := by
  intro fuel
  induction fuel with
  | zero => intro bo s j _ _ _ _ _ _ hf; omega
  | succ fuel ih =>
    intro bo s j hs hst hj0 hjl hbo hg hf
    by_cases hlt : bo < r.stop - r.start
    · by_cases hcap : s.entries.length ≥ c.cap
      · have hstep : parseRange c maxB r (fuel + 1) bo s = s := by
          rw [parseRange]; simp only [hlt, hcap, if_true]
        rw [hstep]
        exact ⟨hs, Nat.le_refl _, hst, Or.inr (Or.inl hcap)⟩
      · by_cases hhdr : bo + c.metaSz > r.stop - r.start
        · have hstep : parseRange c maxB r (fuel + 1) bo s = { s with stop := true } := by
            rw [parseRange]; simp only [hlt, hcap, hhdr, if_true, if_false]
          rw [hstep]
          exact ⟨⟨hs.entries, hs.trim0, hs.len, hs.inLog, hs.pos⟩, Nat.le_refl _, hst, Or.inl rfl⟩
        · -- the entry at this boundary
          have hjlt : j < r.es.length := by
            rcases Nat.lt_or_ge j r.es.length with h1 | h1
            · exact h1
            · have : bytes c (r.es.take j) = bytes c r.es := bytes_take_all c r.es j h1
              have := hr.stop_le
              omega
          have he : r.es[j]? = some r.es[j] := List.getElem?_eq_getElem hjlt
          have hent : entryAt c r.es (r.start + bo) = some r.es[j] := by
            rw [hbo, entryAt_boundary c hm, he]
          by_cases hfit : bo + raw c r.es[j] > r.stop - r.start
          · have hstep : parseRange c maxB r (fuel + 1) bo s = { s with stop := true } := by
              rw [parseRange]; simp only [hlt, hcap, hhdr, hent, hfit, if_true, if_false]
            rw [hstep]
            exact ⟨⟨hs.entries, hs.trim0, hs.len, hs.inLog, hs.pos⟩, Nat.le_refl _, hst, Or.inl rfl⟩
          · by_cases hbud : s.total + r.es[j].len > maxB ∧ (!s.entries.isEmpty) = true
            · have hstep : parseRange c maxB r (fuel + 1) bo s = { s with stop := true } := by
                rw [parseRange]; simp only [hlt, hcap, hhdr, hent, hfit, hbud, and_self, if_true, if_false]
              rw [hstep]
              exact ⟨⟨hs.entries, hs.trim0, hs.len, hs.inLog, hs.pos⟩, Nat.le_refl _, hst, Or.inl rfl⟩
            · have hlog : (log a)[k0 + s.parsed]? = some r.es[j] := by
                rw [hg]; exact hr.logAt j _ he
              have hklt := getElem?_lt_length _ _ _ hlog
              have hkeep : (s.trim = 0 ∨ s.trim < r.es[j].len) := Or.inl hs.trim0
              have hbo' : r.start + (bo + raw c r.es[j]) = bytes c (r.es.take (j + 1)) := by
                rw [bytes_take_succ c r.es j _ he]; omega
              have key : ∀ s1 : APState, s1.entries = (r.es[j], s.trim) :: s.entries → s1.parsed = s.parsed + 1 →
                  s1.trim = 0 → PosOK c a s1 (k0 + (s.parsed + 1)) → PSInv c a k0 s1 := by
                intro s1 h1 h2 h3 h4
                refine ⟨?_, h3, ?_, ?_, fun _ => by rw [h2]; exact h4⟩
                · rw [h1, h2, List.reverse_cons, hs.entries, take_succ_drop _ _ _ _ hlog, hs.trim0]
                  simp
                · rw [h1, h2]; simp [hs.len]
                · rw [h2]; omega
              cases hT : r.isTail with
              | true =>
                have hpos := hr.pos
                rw [hT] at hpos
                simp only [if_true] at hpos
                obtain ⟨w, hw, hid, hes, hbase⟩ := hpos
                have hstep : parseRange c maxB r (fuel + 1) bo s =
                    parseRange c maxB r fuel (bo + raw c r.es[j])
                      { s with entries := (r.es[j], s.trim) :: s.entries, total := s.total + r.es[j].len,
                               parsed := s.parsed + 1, trim := 0, sawTail := true, finalTailId := r.blkId,
                               finalTailOff := r.start + bo + raw c r.es[j] } := by
                  rw [parseRange]
                  simp only [hlt, hcap, hhdr, hent, hfit, hbud, hkeep, hT, if_true, if_false]
                rw [hstep]
                have hinv := key
                    { s with entries := (r.es[j], s.trim) :: s.entries, total := s.total + r.es[j].len,
                             parsed := s.parsed + 1, trim := 0, sawTail := true, finalTailId := r.blkId,
                             finalTailOff := r.start + bo + raw c r.es[j] } rfl rfl rfl (by
                  unfold PosOK
                  simp only [if_true]
                  refine ⟨w, j + 1, hw, hid, by rw [← hes]; exact hjlt, ?_, by omega⟩
                  rw [← hes, ← hbo']; omega)
                have := ih (bo + raw c r.es[j]) _ (j + 1) hinv (fun h => nomatch (hT.symm.trans h)) (by omega) hjlt hbo'
                  (by simp only; omega) (by have := raw_pos c hm r.es[j]; omega)
                have hmono : s.parsed ≤ _ := Nat.le_trans (Nat.le_succ s.parsed) this.2.1
                exact ⟨this.1, hmono, (fun h => nomatch h), this.2.2.2⟩
              | false =>
                have hpos := hr.pos
                rw [hT] at hpos
                simp only [Bool.false_eq_true, if_false] at hpos
                obtain ⟨b, hb, hes, hbase, hcur⟩ := hpos
                have hsf : s.sawTail = false := hst hT
                have hstep : parseRange c maxB r (fuel + 1) bo s =
                    parseRange c maxB r fuel (bo + raw c r.es[j])
                      { s with entries := (r.es[j], s.trim) :: s.entries, total := s.total + r.es[j].len,
                               parsed := s.parsed + 1, trim := 0, finalIdx := r.chainIdx,
                               finalOff := r.start + bo + raw c r.es[j] } := by
                  rw [parseRange]
                  simp only [hlt, hcap, hhdr, hent, hfit, hbud, hkeep, hT, Bool.false_eq_true, if_true, if_false]
                rw [hstep]
                have hinv := key
                    { s with entries := (r.es[j], s.trim) :: s.entries, total := s.total + r.es[j].len,
                             parsed := s.parsed + 1, trim := 0, finalIdx := r.chainIdx,
                             finalOff := r.start + bo + raw c r.es[j] } rfl rfl rfl (by
                  unfold PosOK
                  simp only [hsf, Bool.false_eq_true, if_false]
                  refine ⟨b, j + 1, hb, hcur, by rw [← hes]; exact hjlt, ?_, by omega⟩
                  rw [← hes, ← hbo']; omega)
                have := ih (bo + raw c r.es[j]) _ (j + 1) hinv (fun _ => hsf) (by omega) hjlt hbo'
                  (by simp only; omega) (by have := raw_pos c hm r.es[j]; omega)
                have hmono : s.parsed ≤ _ := Nat.le_trans (Nat.le_succ s.parsed) this.2.1
                exact ⟨this.1, hmono, (fun _ => this.2.2.1 hT), this.2.2.2⟩
    · have hstep : parseRange c maxB r (fuel + 1) bo s = s := by
        rw [parseRange]; simp only [hlt, if_false]
      rw [hstep]
      refine ⟨hs, Nat.le_refl _, hst, ?_⟩
      by_cases hcut : r.stop < bytes c r.es
      · exact Or.inr (Or.inr (Or.inl hcut))
      · right; right; right
        have hstop : r.stop = bytes c r.es := by have := hr.stop_le; omega
        have hge : bytes c r.es ≤ bytes c (r.es.take j) := by omega
        have := boundary_end c hm r.es j hjl hge
        omega

end WalrusVerif.AEng

namespace WalrusVerif.AEng
open WalrusVerif WalrusVerif.Eng

/-- a plan whose ranges continue each other on entry boundaries, starting at global entry index
`g`: every range but the last reaches the end of its block, and only the last may be the tail -/
inductive Good (c : Cfg) (a : ATopic) : Nat → List ARange → Prop
  | nil (g : Nat) : Good c a g []
  | cons (g : Nat) (r : ARange) (rest : List ARange) (base j0 : Nat) :
      RangeOK c a r base j0 → g = base + j0 →
      (rest ≠ [] → r.stop = bytes c r.es ∧ r.isTail = false) →
      Good c a (base + r.es.length) rest → Good c a g (r :: rest)

theorem parsePlan_nil_or_stopped (c : Cfg) (maxB : Nat) (rest : List ARange) (s : APState)
    (h : s.stop = true ∨ s.entries.length ≥ c.cap ∨ rest = []) : parsePlan c maxB rest s = s := by
  cases rest with
  | nil => rfl
  | cons r rs =>
    rcases h with h | h | h
    · rw [parsePlan]; simp [h]
    · rw [parsePlan]; simp [h]
    · cases h

theorem parsePlan_spec (c : Cfg) (hm : 0 < c.metaSz) (a : ATopic) (k0 maxB : Nat) :
    ∀ (plan : List ARange) (g : Nat) (s : APState), Good c a g plan → PSInv c a k0 s → s.sawTail = false →
      k0 + s.parsed = g →
      PSInv c a k0 (parsePlan c maxB plan s) ∧ s.parsed ≤ (parsePlan c maxB plan s).parsed := by
  intro plan
  induction plan with
  | nil => intro g s _ hs _ _; exact ⟨hs, Nat.le_refl _⟩
  | cons r rest ih =>
    intro g s hg hs hst hk
    cases hg with
    | cons _ _ _ base j0 hr hgeq hfull hrest =>
      by_cases hstop : s.stop = true ∨ s.entries.length ≥ c.cap
      · have : parsePlan c maxB (r :: rest) s = s := by rw [parsePlan]; simp [hstop]
        rw [this]; exact ⟨hs, Nat.le_refl _⟩
      · have hstep : parsePlan c maxB (r :: rest) s =
            parsePlan c maxB rest (parseRange c maxB r (r.stop - r.start + 1) 0 s) := by
          rw [parsePlan]; simp [hstop]
        rw [hstep]
        have hp := parseRange_spec c hm a k0 maxB r base j0 hr (r.stop - r.start + 1) 0 s j0 hs (fun _ => hst)
          (Nat.le_refl _) hr.j0_le (by rw [hr.start_eq]; rfl) (by omega) (by omega)
        obtain ⟨hinv, hmono, hsaw, hend⟩ := hp
        rcases hend with he | he | he | he
        · rw [parsePlan_nil_or_stopped c maxB rest _ (Or.inl he)]; exact ⟨hinv, hmono⟩
        · rw [parsePlan_nil_or_stopped c maxB rest _ (Or.inr (Or.inl he))]; exact ⟨hinv, hmono⟩
        · have hnil : rest = [] := by
            rcases rest with _ | ⟨x, xs⟩
            · rfl
            · have := (hfull (by simp)).1; omega
          rw [parsePlan_nil_or_stopped c maxB rest _ (Or.inr (Or.inr hnil))]; exact ⟨hinv, hmono⟩
        · rcases rest with _ | ⟨x, xs⟩
          · exact ⟨hinv, hmono⟩
          · have hnt := (hfull (by simp)).2
            have := ih (base + r.es.length) _ hrest hinv (hsaw hnt) he
            exact ⟨this.1, Nat.le_trans hmono this.2⟩

end WalrusVerif.AEng
