import WalrusVerif.Lemmas.AEngStep
/-! Consequences of `accepts`, in terms of counting functions over histories. -/
namespace WalrusVerif.AEng
open WalrusVerif WalrusVerif.Eng

/-- entries successfully appended to `t` in a history -/
def appendedCount (t : Topic) : List (AOp × Out) → Nat
  | [] => 0
  | (.append t' _, .ok) :: r => (if t' = t then 1 else 0) + appendedCount t r
  | (.batch t' ps, .ok) :: r => (if t' = t then ps.length else 0) + appendedCount t r
  | _ :: r => appendedCount t r

/-- entries returned to `t`'s consumer by consuming reads in a history -/
def consumedCount (t : Topic) : List (AOp × Out) → Nat
  | [] => 0
  | (.next t' true, .entry (some _)) :: r => (if t' = t then 1 else 0) + consumedCount t r
  | (.bread t' _ true none, .entries es) :: r => (if t' = t then es.length else 0) + consumedCount t r
  | _ :: r => consumedCount t r

/-- the state reached after a list of operations -/
def exec (c : Cfg) : AState → List AOp → AState
  | s, [] => s
  | s, op :: rest => exec c (step c s op).1 rest

theorem runFrom_append (c : Cfg) (s : AState) (a b : List AOp) :
    runFrom c s (a ++ b) = runFrom c s a ++ runFrom c (exec c s a) b := by
  induction a generalizing s with
  | nil => rfl
  | cons x r ih => simp [runFrom, exec, ih]

theorem runFrom_length (c : Cfg) (s : AState) (a : List AOp) : (runFrom c s a).length = a.length := by
  induction a generalizing s with
  | nil => rfl
  | cons x r ih => simp [runFrom, ih]

theorem take_map_length (l : List Pay) (m : Nat) (h : m ≤ l.length) :
    ((l.take m).map (fun x => (x, 0))).length = m := by
  simp [List.length_take]; omega

/-- what `count` reports at the end of an accepted history -/
theorem accepts_count (t : Topic) (n : Nat) :
    ∀ (h : List (AOp × Out)) (σ : Spec), σ.k t ≤ (σ.log t).length → accepts σ (h ++ [(.count t, .num n)]) →
      n = ((σ.log t).length + appendedCount t h) - (σ.k t + consumedCount t h) := by
  intro h
  induction h with
  | nil =>
    intro σ _ ha
    simp only [List.nil_append, accepts] at ha
    simp [appendedCount, consumedCount, ha.1]
  | cons x rest ih =>
    intro σ hk ha
    obtain ⟨op, out⟩ := x
    simp only [List.cons_append] at ha
    cases op with
    | append t' p =>
      cases out <;> simp only [accepts] at ha
      · -- ok
        have := ih ⟨upd σ.log t' (σ.log t' ++ [p]), σ.k⟩ (by
          simp only [upd]; split
          · rename_i e; subst e; simp; omega
          · exact hk) ha
        simp only [appendedCount, consumedCount]
        simp only [upd] at this
        by_cases e : t' = t
        · subst e; simp at this ⊢; omega
        · have e' : ¬ t = t' := fun x => e x.symm
          simp [e, e'] at this ⊢; omega
      · have := ih σ hk ha
        simpa [appendedCount, consumedCount] using this
    | batch t' ps =>
      cases out <;> simp only [accepts] at ha
      · have := ih ⟨upd σ.log t' (σ.log t' ++ ps), σ.k⟩ (by
          simp only [upd]; split
          · rename_i e; subst e; simp; omega
          · exact hk) ha
        simp only [appendedCount, consumedCount]
        simp only [upd] at this
        by_cases e : t' = t
        · subst e; simp at this ⊢; omega
        · have e' : ¬ t = t' := fun x => e x.symm
          simp [e, e'] at this ⊢; omega
      · have := ih σ hk ha
        simpa [appendedCount, consumedCount] using this
    | next t' cp =>
      cases out <;> simp only [accepts] at ha
      rename_i r
      obtain ⟨hr, ha⟩ := ha
      cases cp with
      | false =>
        simp only [Bool.false_eq_true, false_and, if_false] at ha
        have := ih σ hk ha
        simpa [appendedCount, consumedCount] using this
      | true =>
        cases r with
        | none =>
          simp only [Option.isSome_none, Bool.false_eq_true, and_false, if_false] at ha
          have := ih σ hk ha
          simpa [appendedCount, consumedCount] using this
        | some e =>
          simp only [Option.isSome_some, and_self, if_true] at ha
          have hlt : σ.k t' < (σ.log t').length := getElem?_lt_length _ _ _ hr.symm
          have := ih ⟨σ.log, upd σ.k t' (σ.k t' + 1)⟩ (by
            simp only [upd]; split
            · rename_i e2; subst e2; omega
            · exact hk) ha
          simp only [appendedCount, consumedCount]
          simp only [upd] at this
          by_cases e2 : t' = t
          · subst e2; simp at this ⊢; omega
          · have e' : ¬ t = t' := fun x => e2 x.symm
            simp [e2, e'] at this ⊢; omega
    | bread t' m cp start =>
      cases start with
      | some req =>
        cases out <;> simp only [accepts] at ha
        have := ih σ hk ha
        simpa [appendedCount, consumedCount] using this
      | none =>
        cases out <;> simp only [accepts] at ha
        rename_i es
        obtain ⟨⟨mm, hes, hle, _⟩, ha⟩ := ha
        have hlen : es.length = mm := by
          rw [hes]; apply take_map_length
          simp only [Spec.pending, List.length_drop]; omega
        cases cp with
        | false =>
          simp only [Bool.false_eq_true, if_false] at ha
          have := ih σ hk ha
          simpa [appendedCount, consumedCount] using this
        | true =>
          simp only [if_true] at ha
          have := ih ⟨σ.log, upd σ.k t' (σ.k t' + es.length)⟩ (by
            simp only [upd]; split
            · rename_i e2; subst e2; omega
            · exact hk) ha
          simp only [appendedCount, consumedCount]
          simp only [upd] at this
          by_cases e2 : t' = t
          · subst e2; simp at this ⊢; omega
          · have e' : ¬ t = t' := fun x => e2 x.symm
            simp [e2, e'] at this ⊢; omega
    | count t' =>
      cases out <;> simp only [accepts] at ha
      have := ih σ hk ha.2
      simpa [appendedCount, consumedCount] using this

end WalrusVerif.AEng
