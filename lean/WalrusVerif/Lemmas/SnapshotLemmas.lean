import WalrusVerif.Model.Snapshot
import WalrusVerif.Lemmas.AMapLemmas
namespace WalrusVerif.Snap
open WalrusVerif WalrusVerif.Meta

def U64 : Nat := 2 ^ 64

theorem takeN_append (a rest : Bytes) (n : Nat) (h : a.length = n) : takeN n (a ++ rest) = some (a, rest) := by
  unfold takeN
  have : ¬ (a ++ rest).length < n := by simp [h]
  simp [this, ← h]

theorem encU64_length (n : Nat) : (encU64 n).length = 8 := by simp [encU64]

theorem leNat_encU64 (n : Nat) (h : n < U64) : leNat (encU64 n) = n := by
  have e : ∀ k, k < 256 → (UInt8.ofNat k).toNat = k := by
    intro k hk; simp [UInt8.toNat_ofNat, Nat.mod_eq_of_lt hk]
  have r : List.range 8 = [0, 1, 2, 3, 4, 5, 6, 7] := by decide
  unfold U64 at h
  simp only [encU64, r, List.map_cons, List.map_nil, leNat]
  rw [e _ (Nat.mod_lt _ (by decide)), e _ (Nat.mod_lt _ (by decide)), e _ (Nat.mod_lt _ (by decide)),
    e _ (Nat.mod_lt _ (by decide)), e _ (Nat.mod_lt _ (by decide)), e _ (Nat.mod_lt _ (by decide)),
    e _ (Nat.mod_lt _ (by decide)), e _ (Nat.mod_lt _ (by decide))]
  simp only [Nat.pow_zero, Nat.div_one, Nat.pow_one]
  omega

theorem getU64_enc (n : Nat) (h : n < U64) (rest : Bytes) : getU64 (encU64 n ++ rest) = some (n, rest) := by
  unfold getU64
  rw [takeN_append _ _ 8 (encU64_length n)]
  simp [leNat_encU64 n h]

/-- the codec assumption: UTF-8 decoding inverts encoding -/
def Codec.RoundTrips (cd : Codec) : Prop := ∀ s, cd.decName (cd.encName s) = some s

theorem decStr_enc (cd : Codec) (hc : cd.RoundTrips) (s : Name) (hl : (cd.encName s).length < U64) (rest : Bytes) :
    decStr cd (encStr cd s ++ rest) = some (s, rest) := by
  unfold decStr encStr
  simp only [List.append_assoc]
  rw [getU64_enc _ hl]
  simp only
  rw [takeN_append _ _ _ rfl]
  simp [hc s]

def PairsOK (m : List (Nat × Nat)) : Prop := ∀ p ∈ m, p.1 < U64 ∧ p.2 < U64

theorem decPairsNN_enc (m : List (Nat × Nat)) (hm : PairsOK m) (rest : Bytes) :
    decPairsNN m.length ((m.flatMap fun (k, v) => encU64 k ++ encU64 v) ++ rest) = some (m, rest) := by
  induction m with
  | nil => simp [decPairsNN]
  | cons p r ih =>
    obtain ⟨k, v⟩ := p
    have hp := hm (k, v) (by simp)
    simp only [List.flatMap_cons, List.length_cons, decPairsNN, List.append_assoc]
    rw [getU64_enc k hp.1]
    simp only
    rw [getU64_enc v hp.2]
    simp only
    have := ih (fun q hq => hm q (by simp [hq]))
    simp only [List.append_assoc] at this
    rw [this]

theorem decMapNN_enc (m : AMap Nat Nat) (hm : PairsOK m) (hl : m.length < U64) (rest : Bytes) :
    decMapNN (encMapNN m ++ rest) = some (m, rest) := by
  unfold decMapNN encMapNN
  simp only [List.append_assoc]
  rw [getU64_enc _ hl]
  simp only
  exact decPairsNN_enc m hm rest

structure TopicOK (t : TopicState) : Prop where
  cur : t.currentSegment < U64
  ldr : t.leaderNode < U64
  off : t.lastSealedEntryOffset < U64
  sealed : PairsOK t.sealedSegments
  sealedLen : t.sealedSegments.length < U64
  leaders : PairsOK t.segmentLeaders
  leadersLen : t.segmentLeaders.length < U64

theorem decTopic_enc (t : TopicState) (ht : TopicOK t) (rest : Bytes) :
    decTopic (encTopic t ++ rest) = some (t, rest) := by
  unfold decTopic encTopic
  simp only [List.append_assoc]
  rw [getU64_enc _ ht.cur]
  simp only
  rw [getU64_enc _ ht.ldr]
  simp only
  rw [getU64_enc _ ht.off]
  simp only
  rw [decMapNN_enc _ ht.sealed ht.sealedLen]
  simp only
  rw [decMapNN_enc _ ht.leaders ht.leadersLen]

def TopicsOK (cd : Codec) (l : List (Name × TopicState)) : Prop :=
  ∀ p ∈ l, (cd.encName p.1).length < U64 ∧ TopicOK p.2

theorem decTopics_enc (cd : Codec) (hc : cd.RoundTrips) (l : List (Name × TopicState)) (hl : TopicsOK cd l)
    (rest : Bytes) :
    decTopics cd l.length ((l.flatMap fun (n, t) => encStr cd n ++ encTopic t) ++ rest) = some (l, rest) := by
  induction l with
  | nil => simp [decTopics]
  | cons p r ih =>
    obtain ⟨n, t⟩ := p
    have hp := hl (n, t) (by simp)
    simp only [List.flatMap_cons, List.length_cons, decTopics, List.append_assoc]
    rw [decStr_enc cd hc n hp.1]
    simp only
    rw [decTopic_enc t hp.2]
    simp only
    have := ih (fun q hq => hl q (by simp [hq]))
    simp only [List.append_assoc] at this
    rw [this]

def NodesOK (cd : Codec) (l : List (Nat × Name)) : Prop :=
  ∀ p ∈ l, p.1 < U64 ∧ (cd.encName p.2).length < U64

theorem decNodes_enc (cd : Codec) (hc : cd.RoundTrips) (l : List (Nat × Name)) (hl : NodesOK cd l)
    (rest : Bytes) :
    decNodes cd l.length ((l.flatMap fun (id, a) => encU64 id ++ encStr cd a) ++ rest) = some (l, rest) := by
  induction l with
  | nil => simp [decNodes]
  | cons p r ih =>
    obtain ⟨id, a⟩ := p
    have hp := hl (id, a) (by simp)
    simp only [List.flatMap_cons, List.length_cons, decNodes, List.append_assoc]
    rw [getU64_enc id hp.1]
    simp only
    rw [decStr_enc cd hc a hp.2]
    simp only
    have := ih (fun q hq => hl q (by simp [hq]))
    simp only [List.append_assoc] at this
    rw [this]

structure StateOK (cd : Codec) (s : ClusterState) : Prop where
  topics : TopicsOK cd s.topics
  topicsLen : s.topics.length < U64
  nodes : NodesOK cd s.nodes
  nodesLen : s.nodes.length < U64

theorem decState_enc (cd : Codec) (hc : cd.RoundTrips) (s : ClusterState) (hs : StateOK cd s) :
    decState cd (encState cd s) = some s := by
  unfold decState encState
  simp only [List.append_assoc]
  rw [getU64_enc _ hs.topicsLen]
  simp only
  have h1 := decTopics_enc cd hc s.topics hs.topics
    (encU64 s.nodes.length ++ (s.nodes.flatMap fun (id, a) => encU64 id ++ encStr cd a))
  simp only [List.append_assoc] at h1
  rw [h1]
  simp only
  rw [getU64_enc _ hs.nodesLen]
  simp only
  have h2 := decNodes_enc cd hc s.nodes hs.nodes []
  simp only [List.append_nil] at h2
  rw [h2]

/-- lookups in an association list do not depend on the order of entries with distinct keys -/
theorem get?_perm {κ ν : Type} [DecidableEq κ] (l₁ l₂ : AMap κ ν) (hp : List.Perm l₁ l₂)
    (hd : (l₁.map (·.1)).Nodup) (k : κ) : AMap.get? l₁ k = AMap.get? l₂ k := by
  induction hp with
  | nil => rfl
  | cons x _ ih =>
    obtain ⟨a, b⟩ := x
    simp only [List.map_cons, List.nodup_cons] at hd
    simp only [AMap.get?]
    split
    · rfl
    · exact ih hd.2
  | swap x y l =>
    obtain ⟨a, b⟩ := x
    obtain ⟨c, d⟩ := y
    simp only [List.map_cons, List.nodup_cons, List.mem_cons] at hd
    simp only [AMap.get?]
    by_cases h1 : c = k <;> by_cases h2 : a = k <;> simp [h1, h2]
    exact absurd (h1.trans h2.symm) (fun e => hd.1 (Or.inl e))
  | trans p1 _ ih1 ih2 =>
    rw [ih1 hd]
    apply ih2
    exact (p1.map (·.1)).nodup_iff.mp hd

end WalrusVerif.Snap
