import WalrusVerif.Lemmas.AEngStep
import WalrusVerif.Spec.QueueR
/-! A clean restart keeps the per-topic invariant, the log, the consumed index and the count. -/
namespace WalrusVerif.AEng
open WalrusVerif WalrusVerif.Eng

theorem get?_mapVals {κ ν : Type} [DecidableEq κ] (f : ν → ν) (m : AMap κ ν) (k : κ) :
    (mapVals f m).get? k = (m.get? k).map f := by
  induction m with
  | nil => rfl
  | cons p r ih =>
    obtain ⟨k', v⟩ := p
    by_cases h : k' = k
    · simp [mapVals, AMap.get?, h]
    · have : (mapVals f r).get? k = (AMap.get? r k).map f := ih
      simp only [mapVals, List.map_cons, AMap.get?, h, if_false]
      exact this

theorem reopenTopic_default (c : Cfg) : reopenTopic c {} = {} := rfl

theorem topic_reopen (c : Cfg) (s : AState) (t : Topic) : (reopen c s).topic t = reopenTopic c (s.topic t) := by
  unfold reopen AState.topic
  simp only [get?_mapVals]
  cases s.topics.get? t with
  | none => simp [reopenTopic_default]
  | some a => simp

/-- dropping an empty, never-read writer block does not change what the cursor denotes -/
theorem tinv_drop_empty_writer (c : Cfg) (n : Nat) (a : ATopic) (k : Nat) (nb : ABlk) (hnb : nb.es = [])
    (hne : a.tailId ≠ nb.id) (h : TInv c n { a with writer := some nb } k) : TInv c n { a with writer := none } k := by
  refine ⟨h.idx_le, h.sealedPos, h.tailOff0, ?_, ?_, h.tailIdLt, ?_, fun _ => trivial, ?_⟩
  · intro hidx
    have := h.tailPos hidx
    simp only [hne, if_false] at this
    exact this
  · intro _ w hw; cases hw
  · intro w hw; cases hw
  · have := h.k_le
    simpa [log, tailEs, hnb] using this

theorem tinv_reopenTopic (c : Cfg) (n : Nat) (a : ATopic) (k : Nat) (h : TInv c n a k) :
    TInv c n (reopenTopic c a) k ∧ log (reopenTopic c a) = log a ∧ (reopenTopic c a).count = a.count := by
  unfold reopenTopic
  cases hw : a.writer with
  | none => exact ⟨h, rfl, rfl⟩
  | some w =>
    simp only
    have hs := tinv_seal_new c n a k h w hw { id := n, limit := 0, es := [] } rfl
    have hlt : (sealInto c a w).tailId < n := by
      have : (sealInto c a w).tailId = a.tailId := by unfold sealInto; split <;> rfl
      rw [this]; exact h.tailIdLt
    have h1 := tinv_drop_empty_writer c (n + 1) (sealInto c a w) k { id := n, limit := 0, es := [] } rfl
      (Nat.ne_of_lt hlt) hs.1
    refine ⟨{ h1 with tailIdLt := hlt, writerIdLt := fun w hw => by cases hw }, ?_, ?_⟩
    · have := hs.2
      simp only [List.append_nil] at this
      rw [← this]
      simp [log, tailEs]
    · exact sealInto_count c a w

theorem sinv_reopen (c : Cfg) (s : AState) (K : Topic → Nat) (h : SInv c s K) : SInv c (reopen c s) K := by
  refine ⟨h.id_pos, ?_, ?_⟩
  · intro t
    rw [topic_reopen]
    exact (tinv_reopenTopic c s.nextId _ _ (h.topic t)).1
  · intro t
    rw [topic_reopen]
    have := tinv_reopenTopic c s.nextId _ _ (h.topic t)
    rw [this.2.2, this.2.1]
    exact h.count t

theorem specOf_reopen (c : Cfg) (s : AState) (K : Topic → Nat) (h : SInv c s K) :
    specOf (reopen c s) K = specOf s K := by
  unfold specOf
  congr 1
  funext t
  rw [topic_reopen]
  exact (tinv_reopenTopic c s.nextId _ _ (h.topic t)).2.1

end WalrusVerif.AEng
