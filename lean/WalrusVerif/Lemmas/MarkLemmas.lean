import WalrusVerif.Lemmas.EngFrame
/-!
Clean/dirty markers in the storage-level model `Eng` (`topic_clean.rs`): the invariant behind C17.
-/
namespace WalrusVerif.Eng
open WalrusVerif

theorem mem_keys_of_get? {κ ν : Type} [DecidableEq κ] (m : AMap κ ν) (k : κ) (v : ν) (h : m.get? k = some v) :
    k ∈ m.keys := by
  induction m with
  | nil => simp [AMap.get?] at h
  | cons p r ih =>
    obtain ⟨k', v'⟩ := p
    by_cases hk : k' = k
    · subst hk; simp [AMap.keys]
    · simp only [AMap.get?, hk, if_false] at h
      have := ih h
      simp only [AMap.keys, List.map_cons, List.mem_cons] at this ⊢
      exact Or.inr this

/-- what `mergeMarkers` leaves in the marker map -/
theorem get?_mergeMarkers (states : AMap Topic (Nat × Bool)) (l : List Topic) (m : AMap Topic (Nat × Bool)) (t : Topic) :
    (mergeMarkers states l m).get? t =
      if t ∈ l then (match states.get? t with | some v => some v | none => m.get? t) else m.get? t := by
  induction l generalizing m with
  | nil => simp [mergeMarkers]
  | cons x r ih =>
    unfold mergeMarkers
    cases hx : states.get? x with
    | none =>
      simp only
      rw [ih]
      by_cases h1 : t ∈ r
      · simp [h1]
      · by_cases h2 : t = x
        · subst h2; simp [h1, hx]
        · simp [h1, h2]
    | some v =>
      simp only
      rw [ih]
      by_cases h2 : t = x
      · subst h2
        by_cases h1 : t ∈ r <;> simp [h1, hx]
      · have h3 : x ≠ t := fun h => h2 h.symm
        by_cases h1 : t ∈ r <;> simp [h1, h2, AMap.get?_insert_ne _ _ _ _ h3]

/-- what directory 0 has on record for a topic (what a later open will report) -/
def dirReported (p : Proc) (t : Topic) : Bool :=
  ((((p.dirs.get? 0).getD {}).markers.get? t).map (·.2)).getD true

/-- the marker invariant: the live instance (or, when none is open, the marker file) reports
exactly the expected state of every topic -/
def MInv (p : Proc) (e : Topic → Bool) : Prop :=
  match p.inst with
  | none => ∀ t, dirReported p t = e t
  | some i => i.dir = 0 ∧ ∀ t, reported i t = e t ∧ (i.cleanStates.get? t = none → dirReported p t = e t)

theorem minv_closeInst (p : Proc) (e : Topic → Bool) (h : MInv p e) :
    (closeInst p).inst = none ∧ MInv (closeInst p) e := by
  unfold closeInst
  cases hi : p.inst with
  | none => simp only; exact ⟨hi, h⟩
  | some i =>
    simp only
    refine ⟨trivial, ?_⟩
    unfold MInv at h ⊢
    rw [hi] at h
    simp only at h ⊢
    obtain ⟨hd, ht⟩ := h
    intro t
    unfold dirReported
    simp only [hd, AMap.get?_insert_self, Option.getD_some]
    rw [get?_mergeMarkers]
    cases hg : i.cleanStates.get? t with
    | none =>
      have := (ht t).2 hg
      unfold dirReported at this
      by_cases hk : t ∈ i.cleanStates.keys <;> simp only [hk, if_true, if_false] <;> exact this
    | some v =>
      have hk := mem_keys_of_get? _ _ _ hg
      simp only [hk, if_true]
      have := (ht t).1
      unfold reported at this
      rw [hg] at this
      exact this

theorem marks_scanFile (c : Cfg) (f : Nat) (cells : List Cell) (fuel off : Nat) (s : ScanSt) :
    (scanFile c f cells fuel off s).inst.marks = s.inst.marks := by
  induction fuel generalizing off s with
  | zero => rfl
  | succ n ih =>
    unfold scanFile
    split
    · split
      · rfl
      · rw [ih]
      · simp only
        split
        · rfl
        · generalize walkBlock c cells off _ _ 0 0 = wb
          obtain ⟨used, k⟩ := wb
          simp only
          split
          · rfl
          · rw [ih]; simp
    · rfl

theorem marks_scanFold (c : Cfg) (l : List (Nat × FileSt)) (s : ScanSt) :
    (l.foldl (fun s (x : Nat × FileSt) =>
      scanFile c x.1 x.2.cells (c.blocksPerFile + 1) 0 { s with trk := s.trk.registerFileIfAbsent x.1 }) s).inst.marks
      = s.inst.marks := by
  induction l generalizing s with
  | nil => rfl
  | cons x r ih =>
    simp only [List.foldl_cons]
    rw [ih, marks_scanFile]

theorem marks_foldl_gen {α : Type} (g : ScanSt → α → ScanSt) (hg : ∀ s x, (g s x).inst.marks = s.inst.marks)
    (l : List α) (s : ScanSt) : (l.foldl g s).inst.marks = s.inst.marks := by
  induction l generalizing s with
  | nil => rfl
  | cons x r ih => simp only [List.foldl_cons]; rw [ih, hg]

/-- `Walrus::with_paths`: the new instance starts from the directory's marker file and touches no
directory state -/
theorem openInst_marks (c : Cfg) (p : Proc) (dir : Nat) (mode : Mode) :
    ∃ i', (openInst c p dir mode).inst = some i' ∧
      i'.marks = (dir, ((p.dirs.get? dir).getD {}).markers, []) ∧ (openInst c p dir mode).side = p.side := by
  unfold openInst
  simp only
  refine ⟨_, rfl, ?_, rfl⟩
  simp only [Inst.marks]
  have := marks_foldl_gen (fun s (x : Nat × FileSt) =>
      scanFile c x.1 x.2.cells (c.blocksPerFile + 1) 0 { s with trk := s.trk.registerFileIfAbsent x.1 })
    (by intro s x; rw [marks_scanFile])
  simp only [Inst.marks] at this
  rw [this]
  rfl

theorem minv_open (c : Cfg) (p : Proc) (mode : Mode) (e : Topic → Bool) (hn : p.inst = none) (h : MInv p e) :
    MInv (openInst c p 0 mode) e := by
  obtain ⟨i', hi, hm, hd⟩ := openInst_marks c p 0 mode
  unfold MInv at h ⊢
  rw [hn] at h
  rw [hi]
  simp only at h ⊢
  simp only [Inst.marks, Prod.mk.injEq] at hm
  refine ⟨hm.1, ?_⟩
  intro t
  have hr : reported i' t = dirReported p t := by unfold reported dirReported; rw [hm.2.1]
  have hd2 : dirReported (openInst c p 0 mode) t = dirReported p t := by
    unfold dirReported; rw [show (openInst c p 0 mode).dirs = p.dirs from congrArg (·.1) hd]
  exact ⟨by rw [hr]; exact h t, fun _ => by rw [hd2]; exact h t⟩

/-- any operation that leaves the marker part of the instance and the directories alone keeps the invariant -/
theorem minv_frame (p p' : Proc) (i i' : Inst) (e : Topic → Bool) (hi : p.inst = some i)
    (hd : p'.dirs = p.dirs) (hi' : p'.inst = some i') (hm : i'.marks = i.marks) (h : MInv p e) : MInv p' e := by
  unfold MInv at h ⊢
  rw [hi] at h; rw [hi']
  simp only [Inst.marks, Prod.mk.injEq] at hm
  simp only at h ⊢
  refine ⟨by rw [hm.1]; exact h.1, ?_⟩
  intro t
  have h1 : reported i' t = reported i t := by unfold reported; rw [hm.2.1]
  have h2 : dirReported p' t = dirReported p t := by unfold dirReported; rw [hd]
  rw [h1, h2, hm.2.1]
  exact h.2 t

/-- `mark_topic_clean/dirty` and the dirty mark of an append -/
theorem minv_mark (p p' : Proc) (i i' : Inst) (e : Topic → Bool) (t : Topic) (b : Bool) (hi : p.inst = some i)
    (hd : p'.dirs = p.dirs) (hi' : p'.inst = some i') (hm : i'.marks = (markClean i t b).marks) (h : MInv p e) :
    MInv p' (fun t' => if t' = t then b else e t') := by
  unfold MInv at h ⊢
  rw [hi] at h; rw [hi']
  simp only [Inst.marks, Prod.mk.injEq] at hm
  simp only at h ⊢
  refine ⟨by rw [hm.1, dir_markClean]; exact h.1, ?_⟩
  intro t'
  have h1 : reported i' t' = reported (markClean i t b) t' := by unfold reported; rw [hm.2.1]
  have h2 : dirReported p' t' = dirReported p t' := by unfold dirReported; rw [hd]
  rw [h1, h2, hm.2.1, reported_markClean]
  by_cases ht : t = t'
  · subst ht
    simp only [if_true]
    refine ⟨trivial, ?_⟩
    intro hn
    -- markClean always leaves an entry for `t`
    exfalso
    have : reported (markClean i t b) t = b := by rw [reported_markClean]; simp
    unfold markClean at hn
    revert hn
    generalize (i.cleanStates.get? t).getD (0, true) = gc
    obtain ⟨g, cl⟩ := gc
    simp only
    split <;> simp
  · have ht' : ¬ t' = t := fun h => ht h.symm
    simp only [ht, ht', if_false]
    refine ⟨(h.2 t').1, ?_⟩
    intro hn
    apply (h.2 t').2
    unfold markClean at hn
    revert hn
    generalize (i.cleanStates.get? t).getD (0, true) = gc
    obtain ⟨g, cl⟩ := gc
    simp only
    split <;> simp [AMap.get?_insert_ne _ _ _ _ ht]

theorem minv_persist (p : Proc) (e : Topic → Bool) (h : MInv p e) : MInv (persistMarkers p) e := by
  unfold persistMarkers
  cases hi : p.inst with
  | none => simpa [hi] using h
  | some i =>
    simp only
    split
    · exact h
    · unfold MInv at h ⊢
      rw [hi] at h
      simp only at h ⊢
      refine ⟨h.1, ?_⟩
      intro t
      refine ⟨(h.2 t).1, ?_⟩
      intro hn
      have := (h.2 t).2 hn
      unfold dirReported at this ⊢
      simp only [h.1, AMap.get?_insert_self, Option.getD_some]
      rw [get?_mergeMarkers, hn]
      by_cases hk : t ∈ i.cleanPending <;> simp only [hk, if_true, if_false] <;> exact this

end WalrusVerif.Eng
