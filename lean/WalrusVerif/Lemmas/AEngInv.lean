import WalrusVerif.Lemmas.AEngBasic
/-!
The per-topic invariant of the entry-level model: the cursor, in whichever of its encodings
(`(idx, off)` in the sealed chain, `(chain.length, 0)` + tail `(id, off)`), denotes one number `k`
= how many entries of the topic's log have been consumed; the count is `|log| - k`.
-/
namespace WalrusVerif.AEng
open WalrusVerif WalrusVerif.Eng

def chainEs (chain : List ABlk) : List Pay := chain.flatMap (·.es)

def tailEs (a : ATopic) : List Pay :=
  match a.writer with
  | some w => w.es
  | none => []

/-- the topic's log: every entry successfully appended, in order -/
def log (a : ATopic) : List Pay := chainEs a.chain ++ tailEs a

/-- entries in the chain blocks before index `i` -/
def before (chain : List ABlk) (i : Nat) : Nat := (chainEs (chain.take i)).length

structure TInv (c : Cfg) (nextId : Nat) (a : ATopic) (k : Nat) : Prop where
  idx_le : a.curIdx ≤ a.chain.length
  sealedPos : ∀ b, a.chain[a.curIdx]? = some b →
    ∃ j, j ≤ b.es.length ∧ a.curOff = bytes c (b.es.take j) ∧ k = before a.chain a.curIdx + j
  tailOff0 : a.curIdx = a.chain.length → a.curOff = 0
  tailPos : a.curIdx = a.chain.length →
    match a.writer with
    | none => k = (chainEs a.chain).length
    | some w =>
      if a.tailId = w.id then
        ∃ j, j ≤ w.es.length ∧ a.tailOff = bytes c (w.es.take j) ∧ k = (chainEs a.chain).length + j
      else k = (chainEs a.chain).length
  sealedNotTail : a.curIdx < a.chain.length → ∀ w, a.writer = some w → a.tailId ≠ w.id
  tailIdLt : a.tailId < nextId
  writerIdLt : ∀ w, a.writer = some w → w.id < nextId
  /-- (kept for the shape of the record; a topic without a writer but with sealed blocks is what a
  restart leaves behind) -/
  noWriterNoChain : a.writer = none → True
  k_le : k ≤ (log a).length

theorem tinv_init (c : Cfg) (n : Nat) (hn : 0 < n) : TInv c n {} 0 := by
  refine ⟨by simp, ?_, by simp, ?_, by simp, by simpa using hn, by simp, fun _ => trivial, by simp⟩
  · intro b h; simp at h
  · intro _; simp [chainEs]

theorem tinv_mono (c : Cfg) (n n' : Nat) (a : ATopic) (k : Nat) (h : TInv c n a k) (hn : n ≤ n') :
    TInv c n' a k :=
  { h with tailIdLt := Nat.lt_of_lt_of_le h.tailIdLt hn,
           writerIdLt := fun w hw => Nat.lt_of_lt_of_le (h.writerIdLt w hw) hn }

@[simp] theorem chainEs_nil : chainEs [] = [] := rfl
theorem chainEs_append (a b : List ABlk) : chainEs (a ++ b) = chainEs a ++ chainEs b := by
  simp [chainEs, List.flatMap_append]
@[simp] theorem chainEs_single (b : ABlk) : chainEs [b] = b.es := by simp [chainEs]

theorem before_append_le (chain : List ABlk) (x : ABlk) (i : Nat) (h : i ≤ chain.length) :
    before (chain ++ [x]) i = before chain i := by
  unfold before
  rw [List.take_append_of_le_length h]

theorem before_length (chain : List ABlk) : before chain chain.length = (chainEs chain).length := by
  simp [before]

theorem before_succ (chain : List ABlk) (i : Nat) (b : ABlk) (h : chain[i]? = some b) :
    before chain (i + 1) = before chain i + b.es.length := by
  unfold before
  have hi : i < chain.length := by
    rcases Nat.lt_or_ge i chain.length with h1 | h1
    · exact h1
    · simp [List.getElem?_eq_none h1] at h
  have hb : chain[i] = b := by
    have := List.getElem?_eq_getElem hi
    rw [this] at h; exact Option.some.inj h
  rw [List.take_succ_eq_append_getElem hi, chainEs_append, hb]
  simp

/-- entries of the log from position `before chain i + j` on, when `j` is inside block `i` -/
theorem log_getElem_sealed (a : ATopic) (i j : Nat) (b : ABlk) (hb : a.chain[i]? = some b) (e : Pay)
    (he : b.es[j]? = some e) : (log a)[before a.chain i + j]? = some e := by
  have hi : i < a.chain.length := by
    rcases Nat.lt_or_ge i a.chain.length with h1 | h1
    · exact h1
    · simp [List.getElem?_eq_none h1] at hb
  have hbi : a.chain[i] = b := by
    have := List.getElem?_eq_getElem hi
    rw [this] at hb; exact Option.some.inj hb
  have hj : j < b.es.length := by
    rcases Nat.lt_or_ge j b.es.length with h1 | h1
    · exact h1
    · simp [List.getElem?_eq_none h1] at he
  have hsplit : a.chain = a.chain.take i ++ b :: a.chain.drop (i + 1) := by
    rw [← hbi, List.getElem_cons_drop]; exact (List.take_append_drop i a.chain).symm
  unfold log before
  conv => lhs; rw [hsplit]
  simp only [chainEs_append, List.append_assoc]
  have : chainEs (b :: List.drop (i + 1) a.chain) = b.es ++ chainEs (List.drop (i + 1) a.chain) := by
    simp [chainEs]
  rw [this]
  have hlen : (chainEs (List.take i (List.take i a.chain ++ b :: List.drop (i + 1) a.chain))).length =
      (chainEs (List.take i a.chain)).length := by
    rw [← hsplit]
  rw [hlen, List.getElem?_append_right (by omega)]
  simp only [Nat.add_sub_cancel_left, List.append_assoc]
  rw [List.getElem?_append_left hj]
  exact he

theorem log_getElem_tail (a : ATopic) (w : ABlk) (hw : a.writer = some w) (j : Nat) :
    (log a)[(chainEs a.chain).length + j]? = w.es[j]? := by
  unfold log tailEs
  rw [hw, List.getElem?_append_right (by omega)]
  simp

end WalrusVerif.AEng
