import WalrusVerif.Model.Fnv
/-!
Each FNV-1a step is a bijection of the 64-bit state for a fixed input byte, and is injective in
the byte for a fixed state (xor with a byte, then multiplication by an odd constant, which is
invertible modulo 2^64).
-/
namespace WalrusVerif.Fnv
open WalrusVerif

/-- multiplicative inverse of the FNV prime modulo 2^64 -/
def primeInv : BitVec 64 := 0xce965057aff6957b#64

theorem prime_mul_inv : prime * primeInv = 1#64 := by decide

theorem mul_prime_cancel (a b : BitVec 64) (h : a * prime = b * prime) : a = b := by
  have h2 : a * prime * primeInv = b * prime * primeInv := by rw [h]
  simpa [BitVec.mul_assoc, prime_mul_inv] using h2

/-- the step is injective in the state -/
theorem step_inj_state (h₁ h₂ : BitVec 64) (b : UInt8) (e : step h₁ b = step h₂ b) : h₁ = h₂ := by
  unfold step at e
  have := mul_prime_cancel _ _ e
  have h3 := congrArg (· ^^^ BitVec.ofNat 64 b.toNat) this
  simpa [BitVec.xor_assoc] using h3

theorem byte_ext (b₁ b₂ : UInt8) (e : BitVec.ofNat 64 b₁.toNat = BitVec.ofNat 64 b₂.toNat) : b₁ = b₂ := by
  have h1 : b₁.toNat < 2 ^ 64 := Nat.lt_of_lt_of_le b₁.toNat_lt (by decide)
  have h2 : b₂.toNat < 2 ^ 64 := Nat.lt_of_lt_of_le b₂.toNat_lt (by decide)
  have := congrArg BitVec.toNat e
  simp [BitVec.toNat_ofNat, Nat.mod_eq_of_lt h1, Nat.mod_eq_of_lt h2] at this
  exact UInt8.toNat_inj.mp this

/-- the step is injective in the byte -/
theorem step_inj_byte (h : BitVec 64) (b₁ b₂ : UInt8) (e : step h b₁ = step h b₂) : b₁ = b₂ := by
  unfold step at e
  have := mul_prime_cancel _ _ e
  have h3 := congrArg (h ^^^ ·) this
  simp only [← BitVec.xor_assoc, BitVec.xor_self, BitVec.zero_xor] at h3
  exact byte_ext _ _ h3

theorem foldFrom_inj (data : List UInt8) (h₁ h₂ : BitVec 64) (e : foldFrom h₁ data = foldFrom h₂ data) :
    h₁ = h₂ := by
  induction data generalizing h₁ h₂ with
  | nil => simpa [foldFrom] using e
  | cons b r ih =>
    simp only [foldFrom, List.foldl_cons] at e
    exact step_inj_state _ _ b (ih _ _ e)

end WalrusVerif.Fnv
