import WalrusVerif.Lemmas.PlaneLemmas
/-!
The metadata command log of the data-plane model is append-only, and every node's applied metadata is the fold of
a prefix of it (the bridge between C19's statement and the model C22/C23 are proved about).
-/
namespace WalrusVerif.Plane
open WalrusVerif

/-- the log only grows -/
def LogStep (w w' : World) : Prop := ∃ ext, w'.log = w.log ++ ext

theorem logStep_refl (w : World) : LogStep w w := ⟨[], by simp⟩
theorem logStep_of_eq (w w' : World) (h : w'.log = w.log) : LogStep w w' := ⟨[], by simp [h]⟩
theorem logStep_trans (a b c : World) (h1 : LogStep a b) (h2 : LogStep b c) : LogStep a c := by
  obtain ⟨e1, h1⟩ := h1
  obtain ⟨e2, h2⟩ := h2
  exact ⟨e1 ++ e2, by rw [h2, h1, List.append_assoc]⟩

theorem getLoop_log (w : World) (tid n : Nat) (topic : Name) (seg del : Nat) :
    (getLoop w tid n topic seg del).1.log = w.log := by
  unfold getLoop
  simp only
  split
  · rfl
  · split <;> rfl

theorem monLoop_logStep (w : World) (tid n : Nat) (l : List (Name × Nat)) : LogStep w (monLoop w tid n l).1 := by
  induction l generalizing w with
  | nil => exact logStep_of_eq _ _ rfl
  | cons p r ih =>
    obtain ⟨topic, seg⟩ := p
    unfold monLoop
    simp only
    split
    · exact ih w
    · exact ⟨[_], rfl⟩

theorem stepTask_logStep (w : World) (tid : Nat) : LogStep w (stepTask w tid).1 := by
  unfold stepTask
  split
  · exact logStep_refl _
  · exact logStep_refl _
  · -- putStart
    split
    · exact logStep_of_eq _ _ rfl
    · simp only
      split
      · exact logStep_of_eq _ _ rfl
      · exact logStep_of_eq _ _ rfl
  · -- putRefreshed
    simp only
    split
    · exact logStep_of_eq _ _ rfl
    · split
      · exact logStep_of_eq _ _ rfl
      · exact logStep_of_eq _ _ rfl
  · -- putChecked
    simp only
    split
    · exact logStep_refl _
    · exact logStep_of_eq _ _ rfl
  · exact logStep_of_eq _ _ rfl
  · exact logStep_of_eq _ _ rfl
  · exact logStep_of_eq _ _ rfl
  · -- putCounted
    split
    · exact logStep_of_eq _ _ rfl
    · exact ⟨[_], rfl⟩
  · -- putAwait
    split
    · exact logStep_of_eq _ _ rfl
    · exact logStep_refl _
  · -- getStart
    simp only
    split
    · exact logStep_refl _
    · exact logStep_of_eq _ _ (by rw [getLoop_log]; rfl)
  · -- getPlanned
    simp only
    split
    · exact logStep_of_eq _ _ rfl
    · split
      · exact logStep_of_eq _ _ rfl
      · split
        · exact logStep_of_eq _ _ (getLoop_log _ _ _ _ _ _)
        · exact logStep_of_eq _ _ rfl
  · exact logStep_of_eq _ _ rfl
  · exact monLoop_logStep _ _ _ _
  · split
    · exact monLoop_logStep _ _ _ _
    · exact logStep_refl _

/-- the metadata a command prefix leads to -/
def foldCmds (cs : List Meta.Cmd) : Meta.ClusterState := cs.foldl (fun m c => (Meta.applyCmd m c).1) Meta.ClusterState.init

theorem foldCmds_snoc (cs : List Meta.Cmd) (c : Meta.Cmd) :
    foldCmds (cs ++ [c]) = (Meta.applyCmd (foldCmds cs) c).1 := by
  simp [foldCmds, List.foldl_append]

/-- every node has applied a prefix of the one command log, and holds exactly the metadata that prefix leads to -/
def MdInv (w : World) : Prop :=
  ∀ m, (w.node m).applied ≤ w.log.length ∧ (w.node m).md = foldCmds (w.log.take (w.node m).applied)

theorem take_append_of_le {α : Type} (l e : List α) (k : Nat) (h : k ≤ l.length) : (l ++ e).take k = l.take k := by
  rw [List.take_append_of_le_length h]

theorem mdInv_of_core (w w' : World) (h : MdInv w) (hl : LogStep w w')
    (hc : ∀ m, (w'.node m).md = (w.node m).md ∧ (w'.node m).applied = (w.node m).applied) : MdInv w' := by
  intro m
  obtain ⟨ext, he⟩ := hl
  obtain ⟨h1, h2⟩ := h m
  obtain ⟨c1, c2⟩ := hc m
  rw [c1, c2, he]
  refine ⟨by simp; omega, ?_⟩
  rw [take_append_of_le _ _ _ h1]; exact h2

theorem mdInv_stepTask (w : World) (tid : Nat) (h : MdInv w) : MdInv (stepTask w tid).1 := by
  refine mdInv_of_core w _ h (stepTask_logStep w tid) ?_
  intro m
  have hc := stepTask_core w tid m
  rcases hc with hc | hc
  · simp only [core, Prod.mk.injEq] at hc; exact ⟨hc.1, hc.2.1⟩
  · simp only [core, updateLeases, Prod.mk.injEq] at hc; exact ⟨hc.1, hc.2.1⟩

theorem mdInv_applyNext (w : World) (n : Nat) (h : MdInv w) : MdInv (applyNext w n).1 := by
  unfold applyNext
  simp only
  cases hg : w.log[(w.node n).applied]? with
  | none => exact h
  | some c =>
    simp only
    intro m
    show _ ∧ _
    have hlog : (w.setNode n { w.node n with md := (Meta.applyCmd (w.node n).md c).1, applied := (w.node n).applied + 1 }).log = w.log := rfl
    rw [hlog, node_setNode]
    by_cases e : n = m
    · subst e
      simp only [if_true]
      obtain ⟨h1, h2⟩ := h n
      have hlt : (w.node n).applied < w.log.length := by
        rcases Nat.lt_or_ge (w.node n).applied w.log.length with x | x
        · exact x
        · rw [List.getElem?_eq_none x] at hg; simp at hg
      refine ⟨hlt, ?_⟩
      have : w.log.take ((w.node n).applied + 1) = w.log.take (w.node n).applied ++ [c] := by
        rw [List.take_succ, hg]; rfl
      rw [this, foldCmds_snoc, ← h2]
    · simp only [e, if_false]; exact h m

theorem mdInv_act (w : World) (a : Act) (h : MdInv w) : MdInv (act w a) := by
  cases a with
  | step tid => exact mdInv_stepTask w tid h
  | apply n => exact mdInv_applyNext w n h
  | sync n =>
    refine mdInv_of_core w _ h (logStep_of_eq _ _ rfl) ?_
    intro m
    show ((w.setNode n (updateLeases (w.node n) n)).node m).md = _ ∧ ((w.setNode n (updateLeases (w.node n) n)).node m).applied = _
    rw [node_setNode]
    by_cases e : n = m
    · subst e; simp [updateLeases]
    · simp [e]
  | spawn tid t => exact h

theorem mdInv_runActs (as : List Act) : ∀ w, MdInv w → MdInv (runActs w as) := by
  induction as with
  | nil => intro w h; exact h
  | cons a r ih => intro w h; exact ih _ (mdInv_act w a h)

theorem mdInv_applyAllOn (n fuel : Nat) : ∀ w, MdInv w → MdInv (applyAllOn w n fuel) := by
  induction fuel with
  | zero => intro w h; exact h
  | succ f ih =>
    intro w h
    unfold applyAllOn
    have h1 := mdInv_applyNext w n h
    rcases hx : applyNext w n with ⟨w', o⟩
    rw [hx] at h1
    cases o with
    | some _ => exact ih w' h1
    | none => exact h1

theorem mdInv_applyAll (w : World) (h : MdInv w) : MdInv (applyAll w) := by
  unfold applyAll
  suffices H : ∀ (l : List Nat) (f : World → Nat) (w : World), MdInv w → MdInv (l.foldl (fun w n => applyAllOn w n (f w)) w) from
    H _ (fun w => w.log.length + 1) w h
  intro l f
  induction l with
  | nil => intro w h; exact h
  | cons a r ih => intro w h; exact ih _ (mdInv_applyAllOn a (f w) w h)

theorem node_default (w : World) (m : Nat) (h : w.nodes.get? m = none) : w.node m = {} := by
  unfold World.node; rw [h]; rfl

theorem mdInv_initWorld (n thresh : Nat) : MdInv (initWorld n thresh) := by
  unfold initWorld
  simp only
  apply mdInv_applyAll
  intro m
  -- every node of the raw world is in its initial state
  suffices H : ∀ (ids : List Nat) (acc : AMap Nat NodeSt), (∀ k s, acc.get? k = some s → s = {}) →
      ∀ k s, (ids.foldl (fun m i => m.insert i ({} : NodeSt)) acc).get? k = some s → s = {} by
    have hnode : ∀ (w : World), (∀ k s, w.nodes.get? k = some s → s = {}) → w.node m = {} := by
      intro w hw
      unfold World.node
      cases hg : w.nodes.get? m with
      | none => rfl
      | some s => rw [hw m s hg]; rfl
    have := hnode { nodeIds := (List.range n).map (· + 1), thresh := thresh,
                    nodes := ((List.range n).map (· + 1)).foldl (fun m i => m.insert i {}) AMap.empty,
                    log := ((List.range n).map (· + 1)).map fun i => Meta.Cmd.upsertNode i (addrOf i) }
      (H _ AMap.empty (by intro k s hk; simp [AMap.get?, AMap.empty] at hk))
    rw [this]
    exact ⟨Nat.zero_le _, rfl⟩
  intro ids
  induction ids with
  | nil => intro acc h; exact h
  | cons a r ih =>
    intro acc h
    apply ih
    intro k s hk
    rw [AMap.get?_insert] at hk
    by_cases e : a = k
    · simp [e] at hk; exact hk.symm
    · simp [e] at hk; exact h k s hk

theorem mdInv_createTopic (w : World) (name : Name) (leader : Nat) (h : MdInv w) : MdInv (createTopic w name leader) := by
  unfold createTopic
  apply mdInv_applyAll
  exact mdInv_of_core w _ h ⟨[_], rfl⟩ (fun m => ⟨rfl, rfl⟩)

end WalrusVerif.Plane
