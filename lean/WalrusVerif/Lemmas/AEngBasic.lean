import WalrusVerif.Model.AEng
/-! Layout arithmetic of the entry-level model: byte offsets of entry boundaries. -/
namespace WalrusVerif.AEng
open WalrusVerif WalrusVerif.Eng

variable (c : Cfg)

@[simp] theorem bytes_nil : bytes c [] = 0 := rfl
@[simp] theorem bytes_cons (e : Pay) (r : List Pay) : bytes c (e :: r) = raw c e + bytes c r := by
  simp [bytes]
theorem bytes_append (a b : List Pay) : bytes c (a ++ b) = bytes c a + bytes c b := by
  simp [bytes, List.sum_append]

theorem raw_pos (hm : 0 < c.metaSz) (e : Pay) : 0 < raw c e := by unfold raw; omega

theorem bytes_take_le (es : List Pay) (j : Nat) : bytes c (es.take j) ≤ bytes c es := by
  induction es generalizing j with
  | nil => simp
  | cons e r ih =>
    cases j with
    | zero => simp
    | succ j => simp only [List.take_succ_cons, bytes_cons]; have := ih j; omega

/-- reading at the boundary before entry `j` returns entry `j` -/
theorem entryAt_boundary (hm : 0 < c.metaSz) (es : List Pay) (j : Nat) :
    entryAt c es (bytes c (es.take j)) = es[j]? := by
  induction es generalizing j with
  | nil => simp [entryAt]
  | cons e r ih =>
    cases j with
    | zero => simp [entryAt]
    | succ j =>
      have hp := raw_pos c hm e
      simp only [List.take_succ_cons, bytes_cons, entryAt, List.getElem?_cons_succ]
      have h1 : ¬ (raw c e + bytes c (r.take j) = 0) := by omega
      have h2 : ¬ (raw c e + bytes c (r.take j) < raw c e) := by omega
      simp only [h1, h2, if_false]
      rw [Nat.add_sub_cancel_left]
      exact ih j

theorem bytes_take_succ (es : List Pay) (j : Nat) (e : Pay) (h : es[j]? = some e) :
    bytes c (es.take (j + 1)) = bytes c (es.take j) + raw c e := by
  induction es generalizing j with
  | nil => simp at h
  | cons x r ih =>
    cases j with
    | zero => simp at h; subst h; simp
    | succ j =>
      simp only [List.getElem?_cons_succ] at h
      simp only [List.take_succ_cons, bytes_cons, ih j h]; omega

theorem bytes_take_lt (hm : 0 < c.metaSz) (es : List Pay) (j : Nat) (h : j < es.length) :
    bytes c (es.take j) < bytes c es := by
  have he : es[j]? = some es[j] := List.getElem?_eq_getElem h
  have h1 := bytes_take_succ c es j es[j] he
  have h2 := bytes_take_le c es (j + 1)
  have := raw_pos c hm es[j]
  omega

theorem bytes_take_all (es : List Pay) (j : Nat) (h : es.length ≤ j) : bytes c (es.take j) = bytes c es := by
  rw [List.take_of_length_le h]

/-- a boundary that is not the end of the block lies before some entry -/
theorem boundary_lt_used (hm : 0 < c.metaSz) (es : List Pay) (j : Nat) (hj : j ≤ es.length)
    (h : bytes c (es.take j) < bytes c es) : j < es.length := by
  rcases Nat.lt_or_ge j es.length with h1 | h1
  · exact h1
  · have := bytes_take_all c es j h1; omega

end WalrusVerif.AEng
