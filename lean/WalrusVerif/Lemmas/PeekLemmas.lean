import WalrusVerif.Lemmas.SpecLemmas
import WalrusVerif.Model.Engine
/-! Peeks and offset-addressed reads do not change anything a later operation can see. -/
namespace WalrusVerif.AEng
open WalrusVerif WalrusVerif.Eng

/-- two states that answer every lookup alike -/
def AState.Equiv (s s' : AState) : Prop := s.nextId = s'.nextId ∧ ∀ t, s.topic t = s'.topic t

theorem equiv_refl (s : AState) : AState.Equiv s s := ⟨rfl, fun _ => rfl⟩

theorem topic_insert (m : AMap Topic ATopic) (n : Nat) (t t' : Topic) (a : ATopic) :
    ({ nextId := n, topics := m.insert t a } : AState).topic t' =
      if t = t' then a else ({ nextId := n, topics := m } : AState).topic t' := by
  simp only [AState.topic, AMap.get?_insert]
  split <;> rfl

theorem equiv_insert (s s' : AState) (h : AState.Equiv s s') (n : Nat) (t : Topic) (a : ATopic) :
    AState.Equiv { nextId := n, topics := s.topics.insert t a } { nextId := n, topics := s'.topics.insert t a } := by
  refine ⟨rfl, fun t' => ?_⟩
  rw [topic_insert, topic_insert]
  split
  · rfl
  · exact h.2 t'

/-- `step` only looks at the state through `topic` and `nextId` -/
theorem step_equiv (c : Cfg) (s s' : AState) (h : AState.Equiv s s') (op : AOp) :
    (step c s op).2 = (step c s' op).2 ∧ AState.Equiv (step c s op).1 (step c s' op).1 := by
  obtain ⟨hn, ht⟩ := h
  cases op with
  | append t p =>
    simp only [step, hn, ht t]
    split
    · exact ⟨by first | rfl | trivial, equiv_insert s s' ⟨hn, ht⟩ _ t _⟩
    · exact ⟨by first | rfl | trivial, equiv_insert s s' ⟨hn, ht⟩ _ t _⟩
  | batch t ps =>
    simp only [step, hn, ht t]
    split
    · exact ⟨by first | rfl | trivial, equiv_insert s s' ⟨hn, ht⟩ _ t _⟩
    · exact ⟨by first | rfl | trivial, equiv_insert s s' ⟨hn, ht⟩ _ t _⟩
  | next t cp =>
    simp only [step, ht t, AState.put]
    refine ⟨by first | rfl | trivial, ?_⟩
    have := equiv_insert s s' ⟨hn, ht⟩ s.nextId t (readNext c (s'.topic t) cp).1
    rw [hn] at this ⊢
    exact this
  | bread t m cp start =>
    cases start with
    | none =>
      simp only [step, ht t, AState.put]
      refine ⟨by first | rfl | trivial, ?_⟩
      have := equiv_insert s s' ⟨hn, ht⟩ s.nextId t (batchRead c (s'.topic t) m cp).1
      rw [hn] at this ⊢
      exact this
    | some r => simp only [step, ht t]; exact ⟨by first | rfl | trivial, hn, ht⟩
  | count t => simp only [step, ht t]; exact ⟨by first | rfl | trivial, hn, ht⟩

theorem runFrom_equiv (c : Cfg) (ops : List AOp) : ∀ (s s' : AState), AState.Equiv s s' →
    runFrom c s ops = runFrom c s' ops := by
  induction ops with
  | nil => intro _ _ _; rfl
  | cons op rest ih =>
    intro s s' h
    have := step_equiv c s s' h op
    simp only [runFrom]
    rw [this.1, ih _ _ this.2]

/-- a cursor batch read with checkpoint=false returns what the consuming read returns and leaves
the topic untouched — in every state -/
theorem batchRead_peek (c : Cfg) (a : ATopic) (m : Nat) :
    (batchRead c a m false).2 = (batchRead c a m true).2 ∧ (batchRead c a m false).1 = a := by
  unfold batchRead
  simp only
  split
  · exact ⟨rfl, rfl⟩
  · exact ⟨rfl, rfl⟩

theorem put_same_equiv (s : AState) (t : Topic) : AState.Equiv (s.put t (s.topic t)) s := by
  refine ⟨rfl, fun t' => ?_⟩
  unfold AState.put
  rw [topic_insert]
  split
  · rename_i e; rw [e]
  · rfl

end WalrusVerif.AEng

namespace WalrusVerif.Eng
open WalrusVerif

theorem planAdd_trk (blk : Blk) (s : PlanSt) (stop : Nat) : (planAdd blk s stop).trk = s.trk := by
  unfold planAdd; split <;> rfl

/-- the planner without the checkpoint mark never touches the reclamation bookkeeping -/
theorem planLoop_trk_unmarked (c : Cfg) (files : List FileSt) (chain : List Blk) (maxB : Nat) (stateless : Bool) :
    ∀ (fuel : Nat) (s : PlanSt), (planLoop c files chain maxB false stateless fuel s).trk = s.trk := by
  intro fuel
  induction fuel with
  | zero => intro s; rfl
  | succ fuel ih =>
    intro s
    rw [planLoop]
    split
    · rfl
    · split
      · split
        · rw [ih]; rfl
        · simp only
          split
          · exact planAdd_trk _ _ _
          · rw [ih]; exact planAdd_trk _ _ _
      · rfl

end WalrusVerif.Eng
