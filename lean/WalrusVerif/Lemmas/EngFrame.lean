import WalrusVerif.Model.Engine
import WalrusVerif.Lemmas.AMapLemmas
/-!
Frame lemmas for the storage-level model `Eng`: which parts of the process/instance state the
write path, the read path and the allocator leave untouched.  Used by C17 (markers), C13
(isolation) and C12 (reclamation bookkeeping).
-/
namespace WalrusVerif.Eng
open WalrusVerif

/-- the parts of the process state that only `open`/`close`/`persist`/`restart` and operations addressed
to the second instance touch: directory contents (index, markers), the second instance, the addressed directory -/
def Proc.side (p : Proc) : AMap Nat DirSt × Option Inst × Nat := (p.dirs, p.inst2, p.curDir)

/-- what the clean-marker logic of an instance reads or writes -/
def Inst.marks (i : Inst) : Nat × AMap Topic (Nat × Bool) × List Topic := (i.dir, i.cleanStates, i.cleanPending)

@[simp] theorem marks_appendBlockToChain (i : Inst) (t : Topic) (b : Blk) :
    (appendBlockToChain i t b).marks = i.marks := by
  unfold appendBlockToChain Inst.marks; rfl

@[simp] theorem marks_incCount (i : Inst) (t : Topic) (d : Nat) : (incCount i t d).marks = i.marks := by
  unfold incCount Inst.marks; split <;> rfl

@[simp] theorem marks_decCount (i : Inst) (t : Topic) (d : Nat) : (decCount i t d).marks = i.marks := by
  unfold decCount Inst.marks; split <;> rfl

@[simp] theorem marks_putReader (i : Inst) (t : Topic) (x : ColInfo) : (putReader i t x).marks = i.marks := rfl
@[simp] theorem marks_setIndex (i : Inst) (t : Topic) (x : Pos) : (setIndex i t x).marks = i.marks := rfl

@[simp] theorem dirs_createFile (p : Proc) (d : Nat) : (p.createFile d).1.side = p.side := rfl

theorem frame_getNextAvailableBlock (c : Cfg) (p : Proc) (i : Inst) :
    (getNextAvailableBlock c p i).1.side = p.side ∧ (getNextAvailableBlock c p i).2.1.marks = i.marks := by
  unfold getNextAvailableBlock
  by_cases h : i.allocOff ≥ c.fileSize <;> simp [h, Inst.marks, Proc.createFile, Proc.side]

theorem frame_allocBlock (c : Cfg) (p : Proc) (i : Inst) (want : Nat) (r : Proc × Inst × Blk)
    (h : allocBlock c p i want = some r) : r.1.side = p.side ∧ r.2.1.marks = i.marks := by
  unfold allocBlock at h
  split at h
  · cases h
  · by_cases h2 : i.allocOff + (want + c.blockSize - 1) / c.blockSize * c.blockSize > c.fileSize <;>
      simp [h2, Proc.createFile] at h <;> subst h <;> simp [Inst.marks, Proc.side]

theorem frame_sealBlock (p : Proc) (i : Inst) (t : Topic) (b : Blk) (u : Nat) :
    (sealBlock p i t b u).1.side = p.side ∧ (sealBlock p i t b u).2.marks = i.marks := by
  unfold sealBlock; exact ⟨rfl, by simp⟩

theorem frame_getOrCreateWriter (c : Cfg) (p : Proc) (i : Inst) (t : Topic) :
    (getOrCreateWriter c p i t).1.side = p.side ∧ (getOrCreateWriter c p i t).2.1.marks = i.marks := by
  unfold getOrCreateWriter
  split
  · exact ⟨rfl, rfl⟩
  · have := frame_getNextAvailableBlock c p i
    exact ⟨this.1, this.2⟩

theorem frame_writerWriteCore (c : Cfg) (p : Proc) (i : Inst) (t : Topic) (w : Writer) (pay : Pay) (flt : Option Fault) :
    (writerWriteCore c p i t w pay flt).1.side = p.side ∧ (writerWriteCore c p i t w pay flt).2.1.marks = i.marks := by
  unfold writerWriteCore
  by_cases hb : w.batching = true
  · simp [hb]
  · simp only [hb, if_false, Bool.false_eq_true]
    have hs := frame_sealBlock p i t w.blk w.off
    by_cases hr : w.off + (c.metaSz + pay.len) > w.blk.limit
    · simp only [hr, if_true]
      generalize sealBlock p i t w.blk w.off = sb at hs ⊢
      obtain ⟨p1, i1⟩ := sb
      simp only at hs ⊢
      cases ha : allocBlock c p1 i1 (c.metaSz + pay.len) with
      | none => simpa using hs
      | some r =>
        obtain ⟨p2, i2, nb⟩ := r
        have h2 := frame_allocBlock c p1 i1 _ _ ha
        simp only at h2 ⊢
        by_cases hf : flt = some ⟨0, 0⟩
        · simp [hf, Inst.marks, Proc.side] at *; simp [h2, hs]
        · by_cases hl : t.long = true <;> simp [hf, hl, Inst.marks, Proc.side] at * <;> simp [h2, hs]
    · simp only [hr, if_false]
      by_cases hf : flt = some ⟨0, 0⟩
      · simp [hf, Inst.marks, Proc.side]
      · by_cases hl : t.long = true <;> simp [hf, hl, Inst.marks, Proc.side]

theorem frame_writerWrite (c : Cfg) (p : Proc) (i : Inst) (t : Topic) (w : Writer) (pay : Pay) (flt : Option Fault) :
    (writerWrite c p i t w pay flt).1.side = p.side ∧ (writerWrite c p i t w pay flt).2.1.marks = i.marks := by
  unfold writerWrite
  split
  · exact ⟨rfl, rfl⟩
  · exact frame_writerWriteCore c p i t w pay flt

theorem frame_planBatch (c : Cfg) (t : Topic) (ps : List Pay) (p : Proc) (i : Inst) (b : Blk) (off : Nat)
    (acc : List (Blk × Nat × Pay)) :
    (planBatch c t ps p i b off acc).1.side = p.side ∧ (planBatch c t ps p i b off acc).2.1.marks = i.marks := by
  induction ps generalizing p i b off acc with
  | nil => exact ⟨rfl, rfl⟩
  | cons pay rest ih =>
    unfold planBatch
    simp only
    split
    · exact ih _ _ _ _ _
    · have hs := frame_sealBlock p i t b off
      generalize sealBlock p i t b off = sb at hs ⊢
      obtain ⟨p1, i1⟩ := sb
      simp only at hs ⊢
      cases ha : allocBlock c p1 i1 (max (c.metaSz + pay.len) c.blockSize) with
      | none => exact hs
      | some r =>
        obtain ⟨p2, i2, nb⟩ := r
        have h2 := frame_allocBlock c p1 i1 _ _ ha
        simp only at h2 ⊢
        have := ih p2 i2 nb (c.metaSz + pay.len) ((nb, 0, pay) :: acc)
        exact ⟨by rw [this.1, h2.1, hs.1], by rw [this.2, h2.2, hs.2]⟩

theorem frame_writerBatchWriteCore (c : Cfg) (p : Proc) (i : Inst) (t : Topic) (w : Writer) (ps : List Pay) (flt : Option Fault) :
    (writerBatchWriteCore c p i t w ps flt).1.side = p.side ∧ (writerBatchWriteCore c p i t w ps flt).2.1.marks = i.marks := by
  unfold writerBatchWriteCore
  split
  · exact ⟨rfl, rfl⟩
  · split
    · exact ⟨rfl, rfl⟩
    · split
      · exact ⟨rfl, rfl⟩
      · split
        · exact ⟨rfl, rfl⟩
        · split
          · exact ⟨rfl, rfl⟩
          · have := frame_planBatch c t ps p i w.blk w.off []
            generalize planBatch c t ps p i w.blk w.off [] = r at this ⊢
            obtain ⟨p1, i1, nb, o⟩ := r
            cases o with
            | none => exact this
            | some x =>
              obtain ⟨off, plan⟩ := x
              simp only
              cases batchFails flt plan.length <;> exact this

theorem frame_writerBatchWrite (c : Cfg) (p : Proc) (i : Inst) (t : Topic) (w : Writer) (ps : List Pay) (flt : Option Fault) :
    (writerBatchWrite c p i t w ps flt).1.side = p.side ∧ (writerBatchWrite c p i t w ps flt).2.1.marks = i.marks := by
  unfold writerBatchWrite
  split
  · exact ⟨rfl, rfl⟩
  · exact frame_writerBatchWriteCore c p i t w ps flt

theorem frame_readNextLoop (c : Cfg) (t : Topic) (cp : Bool) (fuel : Nat) (p : Proc) (i : Inst) (info : ColInfo) :
    (readNextLoop c t cp fuel p i info).1.side = p.side ∧ (readNextLoop c t cp fuel p i info).2.1.marks = i.marks := by
  induction fuel generalizing p i info with
  | zero => exact ⟨rfl, rfl⟩
  | succ n ih =>
    unfold readNextLoop
    split
    · split
      · exact ih _ _ _
      · split
        · split
          · simp only
            generalize shouldPersist i.mode _ false = sp
            obtain ⟨info', persist⟩ := sp
            cases persist <;> simp
          · exact ⟨rfl, rfl⟩
        · exact ⟨rfl, rfl⟩
    · split
      · exact ⟨rfl, rfl⟩
      · rename_i w hw
        simp only
        by_cases hcp : cp = true <;> by_cases hin : info.tailId = w.blk.id <;>
          simp only [hcp, hin, if_false, if_true, true_and, false_and, not_true_eq_false, not_false_eq_true,
            Bool.false_eq_true] <;>
          (repeat' split) <;> simp

theorem frame_readNext (c : Cfg) (p : Proc) (i : Inst) (t : Topic) (cp : Bool) :
    (readNext c p i t cp).1.side = p.side ∧ (readNext c p i t cp).2.1.marks = i.marks := by
  unfold readNext; exact frame_readNextLoop ..

theorem frame_statefulPlan (c : Cfg) (p : Proc) (i : Inst) (t : Topic) (m : Nat) (cp : Bool) :
    (statefulPlan c p i t m cp).p.side = p.side ∧ (statefulPlan c p i t m cp).i.marks = i.marks := by
  unfold statefulPlan; exact ⟨rfl, rfl⟩

theorem marks_statefulCommit (i : Inst) (t : Topic) (info : ColInfo) (ps : PState) (cp : Bool) :
    (statefulCommit i t info ps cp).marks = i.marks := by
  unfold statefulCommit
  by_cases h1 : ps.parsed > 0 ∧ cp = true
  · simp only [h1, and_self, if_true]
    generalize commitBatch i.mode info ps info.chain.length = r
    obtain ⟨info', pos⟩ := r
    cases pos <;> simp
  · simp only [h1, if_false]
    split <;> simp

theorem frame_batchRead (c : Cfg) (p : Proc) (i : Inst) (t : Topic) (m : Nat) (cp : Bool) (st : Option Nat) :
    (batchRead c p i t m cp st).1.side = p.side ∧ (batchRead c p i t m cp st).2.1.marks = i.marks := by
  unfold batchRead
  cases st with
  | some r => simp only; split <;> exact ⟨rfl, rfl⟩
  | none =>
    simp only
    have h := frame_statefulPlan c p i t m cp
    split
    · exact h
    · exact ⟨h.1, by rw [marks_statefulCommit]; exact h.2⟩

/-! ### the marker operations themselves -/

def reported (i : Inst) (t : Topic) : Bool := ((i.cleanStates.get? t).map (·.2)).getD true

theorem reported_markClean (i : Inst) (t t' : Topic) (b : Bool) :
    reported (markClean i t b) t' = if t = t' then b else reported i t' := by
  unfold markClean reported
  cases hg : i.cleanStates.get? t with
  | none =>
    simp only [Option.getD_none]
    by_cases hb : true = b
    · subst hb
      simp only [if_true, AMap.get?_insert]
      by_cases h : t = t' <;> simp [h]
    · simp only [hb, if_false, AMap.get?_insert]
      by_cases h : t = t' <;> simp [h]
  | some v =>
    obtain ⟨g, cl⟩ := v
    simp only [Option.getD_some]
    by_cases hb : cl = b
    · subst hb
      simp only [if_true, AMap.get?_insert]
      by_cases h : t = t'
      · subst h; simp
      · simp [h]
    · simp only [hb, if_false, AMap.get?_insert]
      by_cases h : t = t' <;> simp [h]

theorem dir_markClean (i : Inst) (t : Topic) (b : Bool) : (markClean i t b).dir = i.dir := by
  unfold markClean; split; split <;> rfl

theorem writerWrite_ne_closedCore (c : Cfg) (p : Proc) (i : Inst) (t : Topic) (w : Writer) (pay : Pay) (flt : Option Fault) :
    (writerWriteCore c p i t w pay flt).2.2 ≠ some .closed := by
  unfold writerWriteCore
  by_cases hb : w.batching = true
  · simp [hb]
  · simp only [hb, if_false, Bool.false_eq_true]
    by_cases hr : w.off + (c.metaSz + pay.len) > w.blk.limit
    · simp only [hr, if_true]
      generalize sealBlock p i t w.blk w.off = sb
      obtain ⟨p1, i1⟩ := sb
      simp only
      cases ha : allocBlock c p1 i1 (c.metaSz + pay.len) with
      | none => simp
      | some r =>
        obtain ⟨p2, i2, nb⟩ := r
        by_cases hf : flt = some ⟨0, 0⟩
        · simp [hf]
        · by_cases hl : t.long = true <;> simp [hf, hl]
    · simp only [hr, if_false]
      by_cases hf : flt = some ⟨0, 0⟩
      · simp [hf]
      · by_cases hl : t.long = true <;> simp [hf, hl]

theorem writerWrite_ne_closed (c : Cfg) (p : Proc) (i : Inst) (t : Topic) (w : Writer) (pay : Pay) (flt : Option Fault) :
    (writerWrite c p i t w pay flt).2.2 ≠ some .closed := by
  unfold writerWrite
  split
  · simp
  · exact writerWrite_ne_closedCore c p i t w pay flt

theorem writerBatchWrite_ne_closedCore (c : Cfg) (p : Proc) (i : Inst) (t : Topic) (w : Writer) (ps : List Pay) (flt : Option Fault) :
    (writerBatchWriteCore c p i t w ps flt).2.2 ≠ some .closed := by
  unfold writerBatchWriteCore
  split
  · simp
  · split
    · simp
    · split
      · simp
      · split
        · simp
        · split
          · simp
          · generalize planBatch c t ps p i w.blk w.off [] = r
            obtain ⟨p1, i1, nb, o⟩ := r
            cases o with
            | none => simp
            | some x =>
              obtain ⟨off, plan⟩ := x
              simp only
              cases batchFails flt plan.length <;> simp

theorem writerBatchWrite_ne_closed (c : Cfg) (p : Proc) (i : Inst) (t : Topic) (w : Writer) (ps : List Pay) (flt : Option Fault) :
    (writerBatchWrite c p i t w ps flt).2.2 ≠ some .closed := by
  unfold writerBatchWrite
  split
  · simp
  · exact writerBatchWrite_ne_closedCore c p i t w ps flt

theorem appendForTopic_ne_closed (c : Cfg) (p : Proc) (i : Inst) (t : Topic) (pay : Pay) (flt : Option Fault) :
    (appendForTopic c p i t pay flt).2.2 ≠ .err .closed := by
  unfold appendForTopic
  simp only
  generalize getOrCreateWriter c p (markClean i t false) t = g
  obtain ⟨p1, i1, w⟩ := g
  have h := writerWrite_ne_closed c p1 i1 t w pay flt
  generalize writerWrite c p1 i1 t w pay flt = r at h ⊢
  obtain ⟨a, b, o⟩ := r
  cases o with
  | none => simp
  | some k => simp only at h ⊢; intro hk; injection hk with hk; exact h (by rw [hk])

theorem batchAppendForTopic_ne_closed (c : Cfg) (p : Proc) (i : Inst) (t : Topic) (ps : List Pay) (flt : Option Fault) :
    (batchAppendForTopic c p i t ps flt).2.2 ≠ .err .closed := by
  unfold batchAppendForTopic
  simp only
  generalize getOrCreateWriter c p (markClean i t false) t = g
  obtain ⟨p1, i1, w⟩ := g
  have h := writerBatchWrite_ne_closed c p1 i1 t w ps flt
  generalize writerBatchWrite c p1 i1 t w ps flt = r at h ⊢
  obtain ⟨a, b, o⟩ := r
  cases o with
  | none => simp
  | some k => simp only at h ⊢; intro hk; injection hk with hk; exact h (by rw [hk])

theorem frame_appendForTopic (c : Cfg) (p : Proc) (i : Inst) (t : Topic) (pay : Pay) (flt : Option Fault) :
    (appendForTopic c p i t pay flt).1.side = p.side ∧
      (appendForTopic c p i t pay flt).2.1.marks = (markClean i t false).marks := by
  unfold appendForTopic
  simp only
  have h1 := frame_getOrCreateWriter c p (markClean i t false) t
  generalize getOrCreateWriter c p (markClean i t false) t = g at h1 ⊢
  obtain ⟨p1, i1, w⟩ := g
  have h2 := frame_writerWrite c p1 i1 t w pay flt
  generalize writerWrite c p1 i1 t w pay flt = r at h2 ⊢
  obtain ⟨p2, i2, eo⟩ := r
  simp only at h1 h2 ⊢
  cases eo with
  | some er => exact ⟨by rw [h2.1, h1.1], by rw [h2.2, h1.2]⟩
  | none => exact ⟨by rw [h2.1, h1.1], by rw [marks_incCount, h2.2, h1.2]⟩

theorem frame_batchAppendForTopic (c : Cfg) (p : Proc) (i : Inst) (t : Topic) (ps : List Pay) (flt : Option Fault) :
    (batchAppendForTopic c p i t ps flt).1.side = p.side ∧
      (batchAppendForTopic c p i t ps flt).2.1.marks = (markClean i t false).marks := by
  unfold batchAppendForTopic
  simp only
  have h1 := frame_getOrCreateWriter c p (markClean i t false) t
  generalize getOrCreateWriter c p (markClean i t false) t = g at h1 ⊢
  obtain ⟨p1, i1, w⟩ := g
  have h2 := frame_writerBatchWrite c p1 i1 t w ps flt
  generalize writerBatchWrite c p1 i1 t w ps flt = r at h2 ⊢
  obtain ⟨p2, i2, eo⟩ := r
  simp only at h1 h2 ⊢
  cases eo with
  | some er => exact ⟨by rw [h2.1, h1.1], by rw [h2.2, h1.2]⟩
  | none => exact ⟨by rw [h2.1, h1.1], by rw [marks_incCount, h2.2, h1.2]⟩

end WalrusVerif.Eng
