import WalrusVerif.Spec.Queue
import WalrusVerif.Model.AEngR
/-! The FIFO specification over histories with restart events: a restart changes nothing. -/
namespace WalrusVerif.AEng
open WalrusVerif WalrusVerif.Eng

/-- as `accepts` (Spec/Queue.lean), plus: a clean restart returns `ok` and leaves every topic's log
and consumed index exactly as they were -/
def acceptsR : Spec → List (ROp × Out) → Prop
  | _, [] => True
  | σ, (rop, out) :: rest =>
    match rop, out with
    | .restart, .ok => acceptsR σ rest
    | .op (.append t p), .ok => acceptsR ⟨upd σ.log t (σ.log t ++ [p]), σ.k⟩ rest
    | .op (.append _ _), .err _ => acceptsR σ rest
    | .op (.batch t ps), .ok => acceptsR ⟨upd σ.log t (σ.log t ++ ps), σ.k⟩ rest
    | .op (.batch _ _), .err _ => acceptsR σ rest
    | .op (.next t cp), .entry r =>
      r = (σ.log t)[σ.k t]? ∧
        acceptsR (if cp = true ∧ r.isSome then ⟨σ.log, upd σ.k t (σ.k t + 1)⟩ else σ) rest
    | .op (.bread t _ cp none), .entries es =>
      (∃ m, es = ((σ.pending t).take m).map (·, 0) ∧ σ.k t + m ≤ (σ.log t).length ∧
          (σ.pending t ≠ [] → 0 < m)) ∧
        acceptsR (if cp = true then ⟨σ.log, upd σ.k t (σ.k t + es.length)⟩ else σ) rest
    | .op (.bread _ _ _ (some _)), .entries _ => acceptsR σ rest
    | .op (.count t), .num n => n = (σ.log t).length - σ.k t ∧ acceptsR σ rest
    | _, _ => False

def ROp.WithinLimits (c : Cfg) : ROp → Prop
  | .op o => o.WithinLimits c
  | .restart => True

end WalrusVerif.AEng
