import WalrusVerif.Model.AEng
/-!
# The specification of a topic: a FIFO log with a consumed index

This file is the whole specification the in-process engine theorems (C01, C02, C03-progress, C15)
refer to.  A history is a list of operations with their outputs; `accepts` says when a history is
one the specification allows.
-/
namespace WalrusVerif.AEng
open WalrusVerif WalrusVerif.Eng

/-- the abstract state: per topic the log of successful appends and how many were consumed -/
structure Spec where
  log : Topic → List Pay
  k : Topic → Nat

def Spec.init : Spec := ⟨fun _ => [], fun _ => 0⟩

def upd {β : Type} (f : Topic → β) (t : Topic) (v : β) : Topic → β := fun t' => if t' = t then v else f t'

/-- what is still unconsumed -/
def Spec.pending (σ : Spec) (t : Topic) : List Pay := (σ.log t).drop (σ.k t)

/-- `accepts σ history`: the history is allowed from abstract state `σ`.
* a successful append / batch extends the topic's log by exactly its entries, a failed one by nothing;
* `next` returns the oldest unconsumed entry (or nothing iff everything is consumed) and consumes it
  iff it was a consuming read;
* a cursor batch read returns a prefix `take m` of the unconsumed entries, untrimmed, non-empty
  whenever something is unconsumed, and consumes exactly those iff it was a consuming read;
* an offset-addressed read changes nothing;
* `count` reports appended − consumed. -/
def accepts : Spec → List (AOp × Out) → Prop
  | _, [] => True
  | σ, (op, out) :: rest =>
    match op, out with
    | .append t p, .ok => accepts ⟨upd σ.log t (σ.log t ++ [p]), σ.k⟩ rest
    | .append _ _, .err _ => accepts σ rest
    | .batch t ps, .ok => accepts ⟨upd σ.log t (σ.log t ++ ps), σ.k⟩ rest
    | .batch _ _, .err _ => accepts σ rest
    | .next t cp, .entry r =>
      r = (σ.log t)[σ.k t]? ∧
        accepts (if cp = true ∧ r.isSome then ⟨σ.log, upd σ.k t (σ.k t + 1)⟩ else σ) rest
    | .bread t _ cp none, .entries es =>
      (∃ m, es = ((σ.pending t).take m).map (·, 0) ∧ σ.k t + m ≤ (σ.log t).length ∧
          (σ.pending t ≠ [] → 0 < m)) ∧
        accepts (if cp = true then ⟨σ.log, upd σ.k t (σ.k t + es.length)⟩ else σ) rest
    | .bread _ _ _ (some _), .entries _ => accepts σ rest
    | .count t, .num n => n = (σ.log t).length - σ.k t ∧ accepts σ rest
    | _, _ => False

/-- the operations stay within the advertised limits: no entry needs more than `MAX_ALLOC` -/
def AOp.WithinLimits (c : Cfg) : AOp → Prop
  | .append _ p => raw c p ≤ c.maxAlloc
  | .batch _ ps => ∀ p ∈ ps, raw c p ≤ c.maxAlloc
  | _ => True

end WalrusVerif.AEng
