import WalrusVerif.Model.Hex
import WalrusVerif.Model.Sanitize
import WalrusVerif.Model.WalKey
import WalrusVerif.Model.Meta
/-!
`wdriver`: line-protocol driver.  One request per line on stdin, one reply per line on stdout.
It runs the very definitions the theorems in `WalrusVerif/Props` are about.
-/
open WalrusVerif

def handlePure (toks : List String) : Option String :=
  match toks with
  | ["sanitize", k] =>
    match Hex.decodeStr k with
    | some key => some (Hex.encodeStr (Sanitize.sanitize key))
    | none => some "bad-op"
  | ["walkey", t, n] =>
    match Hex.decodeStr t, n.toNat? with
    | some topic, some seg => some (Hex.encodeStr (WalKey.walKey topic seg))
    | _, _ => some "bad-op"
  | ["parsekey", k] =>
    match Hex.decodeStr k with
    | some key =>
      match WalKey.parseWalKey key with
      | some (t, n) => some s!"some {Hex.encodeStr t} {n}"
      | none => some "none"
    | none => some "bad-op"
  | _ => none

/-! ### metadata state machine (C18, C20) -/

structure DState where
  md : Meta.ClusterState := Meta.ClusterState.init

def replyStr : Meta.Reply → String
  | .exists_ => "EXISTS" | .created => "CREATED" | .rolled => "ROLLED" | .node => "NODE"
  | .errNotFound => "ERR:notfound" | .errOverflow => "ERR:overflow" | .errDecode => "ERR:decode"

def sortPairs (l : List (Nat × Nat)) : List (Nat × Nat) :=
  (l.toArray.qsort (fun a b => a.1 < b.1)).toList

def fmtPairs (l : List (Nat × Nat)) : String :=
  ",".intercalate ((sortPairs l).map fun (k, v) => s!"{k}:{v}")

def fmtTopic : Option Meta.TopicState → String
  | none => "none"
  | some t => s!"cur={t.currentSegment} leader={t.leaderNode} off={t.lastSealedEntryOffset} sealed=[{fmtPairs t.sealedSegments}] leaders=[{fmtPairs t.segmentLeaders}]"

def handleMeta (st : DState) (toks : List String) : Option (DState × String) :=
  match toks with
  | ["meta", "reset"] => some ({ st with md := Meta.ClusterState.init }, "ok")
  | ["meta", "create", n, l] =>
    match Hex.decodeStr n, l.toNat? with
    | some name, some leader =>
      let (m, r) := Meta.applyCmd st.md (.createTopic name leader)
      some ({ st with md := m }, replyStr r)
    | _, _ => some (st, "bad-op")
  | ["meta", "roll", n, l, c] =>
    match Hex.decodeStr n, l.toNat?, c.toNat? with
    | some name, some leader, some cnt =>
      let (m, r) := Meta.applyCmd st.md (.rolloverTopic name leader cnt)
      some ({ st with md := m }, replyStr r)
    | _, _, _ => some (st, "bad-op")
  | ["meta", "upsert", i, a] =>
    match i.toNat?, Hex.decodeStr a with
    | some id, some addr =>
      let (m, r) := Meta.applyCmd st.md (.upsertNode id addr)
      some ({ st with md := m }, replyStr r)
    | _, _ => some (st, "bad-op")
  | ["meta", "bytes", b] =>
    match (if b = "-" then some [] else Hex.decodeBytes b.toList) with
    | some bs =>
      let (m, r) := Meta.applyBytes st.md bs
      some ({ st with md := m }, replyStr r)
    | none => some (st, "bad-op")
  | ["meta", "state", n] =>
    match Hex.decodeStr n with
    | some name => some (st, fmtTopic (st.md.topics.get? name))
    | none => some (st, "bad-op")
  | _ => none

def step (st : DState) (line : String) : DState × String :=
  let toks := (line.trimAscii.toString.splitOn " ").filter (· ≠ "")
  match handlePure toks with
  | some r => (st, r)
  | none =>
    match handleMeta st toks with
    | some r => r
    | none => (st, "bad-op")

partial def loop (h : IO.FS.Stream) (out : IO.FS.Stream) (st : DState) : IO Unit := do
  let line ← h.getLine
  if line.isEmpty then return ()
  let (st', r) := step st line
  out.putStrLn r
  loop h out st'

def main : IO Unit := do
  let out ← IO.getStdout
  loop (← IO.getStdin) out {}
  out.flush
