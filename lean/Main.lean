import WalrusVerif.Model.Hex
import WalrusVerif.Model.Sanitize
import WalrusVerif.Model.WalKey
/-!
`wdriver`: line-protocol driver.  One request per line on stdin, one reply per line on stdout.
It runs the very definitions the theorems in `WalrusVerif/Props` are about.
-/
open WalrusVerif

def handlePure (toks : List String) : Option String :=
  match toks with
  | ["sanitize", k] =>
    match Hex.decodeStr k with
    | some key => some (Hex.encodeStr (Sanitize.sanitize key))
    | none => some "bad-op"
  | ["walkey", t, n] =>
    match Hex.decodeStr t, n.toNat? with
    | some topic, some seg => some (Hex.encodeStr (WalKey.walKey topic seg))
    | _, _ => some "bad-op"
  | ["parsekey", k] =>
    match Hex.decodeStr k with
    | some key =>
      match WalKey.parseWalKey key with
      | some (t, n) => some s!"some {Hex.encodeStr t} {n}"
      | none => some "none"
    | none => some "bad-op"
  | _ => none

def step (line : String) : String :=
  let toks := (line.trimAscii.toString.splitOn " ").filter (· ≠ "")
  match handlePure toks with
  | some r => r
  | none => "bad-op"

partial def loop (h : IO.FS.Stream) (out : IO.FS.Stream) : IO Unit := do
  let line ← h.getLine
  if line.isEmpty then return ()
  out.putStrLn (step line)
  loop h out

def main : IO Unit := do
  let out ← IO.getStdout
  loop (← IO.getStdin) out
  out.flush
