import WalrusVerif.Model.Hex
import WalrusVerif.Model.Sanitize
import WalrusVerif.Model.WalKey
import WalrusVerif.Model.Meta
import WalrusVerif.Model.Snapshot
import WalrusVerif.Model.Engine
import WalrusVerif.Model.Quirks
import WalrusVerif.Model.Frame
import WalrusVerif.Model.AEng
import WalrusVerif.Model.AEngR
import WalrusVerif.Model.Header
import WalrusVerif.Model.Durable
import WalrusVerif.Model.Fnv
import WalrusVerif.Model.LogStore
import WalrusVerif.Model.LogStoreFault
import WalrusVerif.Model.Plane
import WalrusVerif.Model.Adapter
/-!
`wdriver`: line-protocol driver.  One request per line on stdin, one reply per line on stdout.
It runs the very definitions the theorems in `WalrusVerif/Props` are about.
-/
open WalrusVerif

def handlePure (toks : List String) : Option String :=
  match toks with
  | ["sanitize", k] =>
    match Hex.decodeStr k with
    | some key => some (Hex.encodeStr (Sanitize.sanitize key))
    | none => some "bad-op"
  | ["walkey", t, n] =>
    match Hex.decodeStr t, n.toNat? with
    | some topic, some seg => some (Hex.encodeStr (WalKey.walKey topic seg))
    | _, _ => some "bad-op"
  | ["fnv", h] =>
    match (if h = "-" then some [] else Hex.decodeBytes h.toList) with
    | some bs => some (toString (Fnv.checksum64 bs).toNat)
    | none => some "bad-op"
  | ["hdr", n] =>
    match n.toNat? with
    | some k =>
      let (len, r) := Header.encoded k
      some (s!"metalen={len} repr=" ++ match r with
        | .inline l => s!"inline:{l}"
        | .outOfLine l rel => s!"ool:{l}:{rel}")
    | none => some "bad-op"
  | "dur" :: evs =>
    -- a recorded I/O trace (C10): c:<f> create, s:<f> file sync, d directory sync, w:<f>:<id>:<osync> entry write,
    -- a:<id> append acknowledged, r:<v> index renamed, k:<v> consuming read returned
    let parse (s : String) : Option Durable.Ev :=
      match s.splitOn ":" with
      | ["c", f] => f.toNat?.map Durable.Ev.create
      | ["s", f] => f.toNat?.map Durable.Ev.syncFile
      | ["d"] => some Durable.Ev.syncDir
      | ["w", f, i, o] => do some (Durable.Ev.write (← f.toNat?) (← i.toNat?) (o == "1"))
      | ["a", i] => i.toNat?.map Durable.Ev.ack
      | ["r", v] => v.toNat?.map Durable.Ev.renameIdx
      | ["k", v] => v.toNat?.map Durable.Ev.ackRead
      | _ => none
    match evs.mapM parse with
    | some tr =>
      let a := match Durable.firstBadAck tr with | none => "ok" | some p => s!"bad@{p}"
      let r := match Durable.firstBadRead tr with | none => "ok" | some p => s!"bad@{p}"
      some s!"ack={a} read={r} checker={Durable.ackDisciplinedB tr},{Durable.readDisciplinedB tr}"
    | none => some "bad-op"
  | ["parsekey", k] =>
    match Hex.decodeStr k with
    | some key =>
      match WalKey.parseWalKey key with
      | some (t, n) => some s!"some {Hex.encodeStr t} {n}"
      | none => some "none"
    | none => some "bad-op"
  | _ => none

/-! ### metadata state machine (C18, C20) -/

structure DState where
  md : Meta.ClusterState := Meta.ClusterState.init
  cfg : Eng.Cfg := Eng.smallCfg
  mode : Eng.Mode := .strict
  proc : Eng.Proc := {}
  backend : Frame.Backend := {}
  /-- the entry-level model, valid from the first `open` of a program until a close/restart or a fired quirk -/
  aeng : Option AEng.AState := none
  opens : Nat := 0
  /-- a trigger of an open finding has fired in this program: the entry-level model stops at the next restart -/
  tainted : Bool := false
  /-- `fault k n` arms an injected I/O fault for the operation that follows -/
  pending : Option Eng.Fault := none
  /-- `crash k n` arms a process death inside the operation that follows -/
  pendingCrash : Option (Nat × Nat) := none
  fdBackend : Bool := true
  /-- octopii's log store (C21) -/
  node : LogStore.Node := {}
  /-- the bare WAL wrapper (C21): records are the payload names -/
  wwal : LogStore.Wal String := {}
  wopen : Bool := false
  /-- armed write failures of the Raft log / the peer log: the countdown of record writes -/
  lsFault : Option Nat := none
  lsPeerFault : Option Nat := none
  /-- the data plane (C22, C23) -/
  world : Plane.World := {}
  /-- the Raft state-machine adapter (C19); `none` = no adapter in this process -/
  adapter : Option Adapter.SmSt := none

def replyStr : Meta.Reply → String
  | .exists_ => "EXISTS" | .created => "CREATED" | .rolled => "ROLLED" | .node => "NODE"
  | .errNotFound => "ERR:notfound" | .errOverflow => "ERR:overflow" | .errDecode => "ERR:decode"

def sortPairs (l : List (Nat × Nat)) : List (Nat × Nat) :=
  (l.toArray.qsort (fun a b => a.1 < b.1)).toList

def fmtPairs (l : List (Nat × Nat)) : String :=
  ",".intercalate ((sortPairs l).map fun (k, v) => s!"{k}:{v}")

def fmtTopic : Option Meta.TopicState → String
  | none => "none"
  | some t => s!"cur={t.currentSegment} leader={t.leaderNode} off={t.lastSealedEntryOffset} sealed=[{fmtPairs t.sealedSegments}] leaders=[{fmtPairs t.segmentLeaders}]"

def utf8Codec : Snap.Codec :=
  { encName := fun s => (String.ofList s).toUTF8.toList,
    decName := fun b => (String.fromUTF8? (ByteArray.mk b.toArray)).map String.toList }

def sortBy {α : Type} (key : α → String) (l : List α) : List α :=
  (l.toArray.qsort (fun a b => key a < key b)).toList

/-- canonical dump of the whole metadata state (maps sorted) -/
def dumpState (s : Meta.ClusterState) : String :=
  let ts := sortBy (fun (p : Meta.Name × Meta.TopicState) => Hex.encodeStr p.1) s.topics
  let ns := (s.nodes.toArray.qsort (fun a b => a.1 < b.1)).toList
  "topics{" ++ ";".intercalate (ts.map fun (n, t) => Hex.encodeStr n ++ "=" ++ fmtTopic (some t)) ++ "} nodes{" ++
    ",".intercalate (ns.map fun (i, a) => s!"{i}:{Hex.encodeStr a}") ++ "}"

def handleMeta (st : DState) (toks : List String) : Option (DState × String) :=
  match toks with
  | ["meta", "dump"] => some (st, dumpState st.md)
  | ["meta", "restorecheck", b] =>
    -- decode a snapshot taken by the real implementation and compare with the model's own state
    match (if b = "-" then some [] else Hex.decodeBytes b.toList) with
    | some bs =>
      match Snap.decState utf8Codec bs with
      | some s' => some (st, if dumpState s' = dumpState st.md then "same" else "different")
      | none => some (st, "ERR:decode")
    | none => some (st, "bad-op")
  | ["meta", "selfcheck"] =>
    -- the model's own snapshot/restore round trip on the current state
    let r := Snap.restore utf8Codec Meta.ClusterState.init (Snap.snapshot utf8Codec st.md)
    some (st, if r.2 && dumpState r.1 = dumpState st.md then "same" else "different")
  | ["meta", "adapter"] =>
    let r := Snap.adapterInstall utf8Codec Meta.ClusterState.init (Snap.adapterBuild st.md)
    some (st, if r.2 then "install:ok" else "install:err")
  | ["meta", "reset"] => some ({ st with md := Meta.ClusterState.init }, "ok")
  | ["meta", "create", n, l] =>
    match Hex.decodeStr n, l.toNat? with
    | some name, some leader =>
      let (m, r) := Meta.applyCmd st.md (.createTopic name leader)
      some ({ st with md := m }, replyStr r)
    | _, _ => some (st, "bad-op")
  | ["meta", "roll", n, l, c] =>
    match Hex.decodeStr n, l.toNat?, c.toNat? with
    | some name, some leader, some cnt =>
      let (m, r) := Meta.applyCmd st.md (.rolloverTopic name leader cnt)
      some ({ st with md := m }, replyStr r)
    | _, _, _ => some (st, "bad-op")
  | ["meta", "upsert", i, a] =>
    match i.toNat?, Hex.decodeStr a with
    | some id, some addr =>
      let (m, r) := Meta.applyCmd st.md (.upsertNode id addr)
      some ({ st with md := m }, replyStr r)
    | _, _ => some (st, "bad-op")
  | ["meta", "bytes", b] =>
    match (if b = "-" then some [] else Hex.decodeBytes b.toList) with
    | some bs =>
      let (m, r) := Meta.applyBytes st.md bs
      some ({ st with md := m }, replyStr r)
    | none => some (st, "bad-op")
  | ["meta", "state", n] =>
    match Hex.decodeStr n with
    | some name => some (st, fmtTopic (st.md.topics.get? name))
    | none => some (st, "bad-op")
  | _ => none

/-! ### engine (C01 …) -/

def parseTopic (s : String) : Option Eng.Topic :=
  match s.toList with
  | 't' :: r => (String.ofList r).toNat?.map fun k => { id := k, long := false }
  | 'L' :: r => (String.ofList r).toNat?.map fun k => { id := k, long := true }
  -- `M<k>`: names of 216, 217, 220, 222, 223, 200 bytes (harness/engine/src/prog.rs): the header fits up to 216
  | 'M' :: r => (String.ofList r).toNat?.map fun k =>
      { id := 1000 + k, long := decide (([216, 217, 220, 222, 223, 200].getD (k % 6) 0) > 216) }
  | _ => none

def parsePay (s : String) : Option Eng.Pay :=
  match s.splitOn ":" with
  | [a, b] =>
    match a.toNat?, b.toNat? with
    | some l, some sd => some { len := l, seed := sd }
    | _, _ => none
  | _ => none

def parsePays (s : String) : Option (List Eng.Pay) :=
  if s = "-" then some [] else (s.splitOn ",").mapM parsePay

def parseMode (s : String) : Option Eng.Mode :=
  if s = "strict" then some .strict
  else match s.splitOn ":" with
    | ["alo", n] => n.toNat?.map Eng.Mode.alo
    | _ => none

def fmtPay (p : Eng.Pay) : String := s!"{p.len}:{p.seed}"

/-- payload byte `i` of descriptor `seed` (same PRF as harness/engine/src/prog.rs) -/
def payByte (seed i : Nat) : Nat := 128 + ((seed + i * 37 + (i / 128) * 11) % 128)

/-- digest of the suffix of a payload after trimming `trim` bytes: length, sum of the first ≤64 and
of the last ≤64 bytes -/
def fmtDigest (p : Eng.Pay) (trim : Nat) : String :=
  let n := p.len - trim
  let k := min n 64
  let s1 := (List.range k).foldl (fun a j => a + payByte p.seed (trim + j)) 0
  let s2 := (List.range k).foldl (fun a j => a + payByte p.seed (p.len - 1 - j)) 0
  s!"~{n}:{s1}:{s2}"

def fmtOut : Eng.Out → String
  | .ok => "ok"
  | .err .invalidInput => "err:invalidInput"
  | .err .wouldBlock => "err:wouldBlock"
  | .err .invalidData => "err:invalidData"
  | .err .other => "err:other"
  | .err .closed => "err:closed"
  | .entry none => "none"
  | .entry (some p) => fmtPay p
  | .entries ps => "[" ++ ",".intercalate (ps.map fun (p, tr) => if tr = 0 then fmtPay p else s!"{fmtPay p}+{tr}") ++ "]"
  | .num n => toString n
  | .flag b => if b then "1" else "0"
  | .names l => "[" ++ ",".intercalate ((l.toArray.qsort (· < ·)).toList.map toString) ++ "]"
  | .trk none => "none"
  | .trk (some f) => s!"{f.locked},{f.ckpt},{f.total},{if f.fully then 1 else 0}"
  | .crashed => "crashed"
  | .trks l => ";".intercalate (((l.toArray.qsort (fun a b => a.1 < b.1)).toList).map fun (n, o) =>
      match o with
      | none => s!"{n}=none"
      | some f => s!"{n}={f.locked},{f.ckpt},{f.total},{if f.fully then 1 else 0}")

def parseEngOp (st : DState) (toks : List String) : Option Eng.Op :=
  match toks with
  | ["clock", ms] => ms.toNat?.map Eng.Op.clock
  | ["open"] => some (.open_ st.mode)
  | ["opensync"] => some (.open_ st.mode)
  | ["trace", _] => some .persist
  | ["close"] => some .close
  | ["restart"] => some .restart
  | ["kill"] => some .kill
  | ["ls"] => some .ls
  | ["trk", n] => n.toNat?.map Eng.Op.trk
  | ["trks"] => some .trks
  | ["append", t, p] => do some (.append (← parseTopic t) (← parsePay p))
  | ["batch", t, ps] => do some (.batch (← parseTopic t) (← parsePays ps))
  | ["next", t, cp] => do some (.next (← parseTopic t) (cp == "1"))
  | ["bread", t, m, cp, off] => do
    let start ← if off = "-" then some none else off.toNat?.map some
    some (.bread (← parseTopic t) (← m.toNat?) (cp == "1") start)
  | ["count", t] => do some (.count (← parseTopic t))
  | ["size", t] => do some (.size (← parseTopic t))
  | ["mark", t, "clean"] => do some (.mark (← parseTopic t) true)
  | ["mark", t, "dirty"] => do some (.mark (← parseTopic t) false)
  | ["isclean", t] => do some (.isClean (← parseTopic t))
  | ["persist"] => some .persist
  | ["persister", _] => some .persist
  | ["reclaim"] => some .reclaim
  | _ => none

def handleEng (st : DState) (toks : List String) : Option (DState × String) :=
  match toks with
  | ["eng", "cfg", g, m, backend] =>
    match parseMode m with
    | some mode =>
      let cfg := if g = "small" then Eng.smallCfg else Eng.realCfg
      some ({ st with cfg := cfg, mode := mode, proc := {}, aeng := none, opens := 0, tainted := false,
                      fdBackend := backend == "fd", pending := none, pendingCrash := none }, "ok")
    | none => some (st, "bad-op")
  | ["eng", "fault", k, n] =>
    match k.toNat?, n.toNat? with
    | some kk, some nn => some ({ st with pending := some ⟨kk, nn⟩ }, "ok")
    | _, _ => some (st, "bad-op")
  | ["eng", "crash", k, n] =>
    match k.toNat?, n.toNat? with
    | some kk, some nn => some ({ st with pendingCrash := some (kk, nn) }, "ok")
    | _, _ => some (st, "bad-op")
  | "eng" :: "B" :: rest =>
    -- an operation addressed to the second instance of the process
    match parseEngOp st rest with
    | some op0 =>
      let (p, o) := Eng.step st.cfg st.proc (.onB op0)
      let q := Eng.fires st.cfg st.proc (.onB op0)
      let pre := if q.isEmpty then "" else "#quirk " ++ ",".intercalate q ++ "\n"
      let txt := pre ++ match op0, o with
        | .bread _ _ _ (some _), .entries ps => "[" ++ ",".intercalate (ps.map fun (p, tr) => fmtDigest p tr) ++ "]"
        | _, _ => fmtOut o
      some ({ st with proc := p, tainted := st.tainted || !q.isEmpty }, txt)
    | none => some (st, "bad-op")
  | "eng" :: rest =>
    match parseEngOp st rest with
    | some op0 =>
      let op1 : Eng.Op := match st.pending, op0 with
        | some f, .append t pay => .appendF t pay f
        | some f, .batch t ps => .batchF t ps f
        | _, o => o
      let op : Eng.Op := match st.pendingCrash with
        | some (k, n) => .crashAt k n st.fdBackend op1
        | none => op1
      let st := { st with pending := none, pendingCrash := none }
      let (p, o) := Eng.step st.cfg st.proc op
      let q := Eng.fires st.cfg st.proc op
      let pre := if q.isEmpty then "" else "#quirk " ++ ",".intercalate q ++ "\n"
      -- the entry-level model runs alongside while it applies
      -- a faulted operation that fails without having rotated a block is a no-op for the entry-level
      -- model; one that rotated stops the entry-level model (see `faultStops`)
      let faulted : Bool := match op with | .appendF .. => true | .batchF .. => true | _ => false
      let rotated : Bool := match op, st.proc.inst, p.inst with
        | .appendF t _ _, some i0, some i1 => decide ((i1.reader t).chain.length > (i0.reader t).chain.length) || (i0.writers.get? t).isNone
        | .batchF t _ _, some i0, some i1 => decide ((i1.reader t).chain.length > (i0.reader t).chain.length) || (i0.writers.get? t).isNone
        | _, _, _ => false
      let faultFired : Bool := faulted && (match o with | .err .other => true | _ => false)
      let crashedNow : Bool := match o with | .crashed => true | _ => false
      let inner : Eng.Op := match op with | .crashAt _ _ _ x => x | x => x
      let aop : Option AEng.AOp := match inner with
        | .append t pay => some (.append t pay)
        | .batch t ps => some (.batch t ps)
        | .appendF t pay _ => if faultFired then none else some (.append t pay)
        | .batchF t ps _ => if faultFired then none else some (.batch t ps)
        | .next t cp => some (.next t cp)
        | .bread t m cp s => some (.bread t m cp s)
        | .count t => some (.count t)
        | _ => none
      let deleted : Bool := match op, o with
        | .reclaim, .names l => !l.isEmpty
        | _, _ => false
      let tainted := st.tainted || !q.isEmpty || deleted
      -- a clean restart (StrictlyAtOnce, no finding triggered so far, no allocated-but-empty block):
      -- the entry-level model goes through `AEng.reopen`; otherwise it stops here
      let reopened : Option AEng.AState :=
        match st.aeng with
        | some a =>
          if st.mode == .strict && !tainted && a.topics.all (fun (_, x) => AEng.friendlyTopic x) then
            some (AEng.reopen st.cfg a)
          else none
        | none => none
      let isOpen := st.proc.inst.isSome
      let (aeng, opens, apre) : Option AEng.AState × Nat × String :=
        match inner with
        | .open_ _ =>
          if st.opens = 0 then (some {}, 1, "")
          else if isOpen then (reopened, st.opens + 1, "")           -- open on a live instance = close + open
          else (if tainted then none else st.aeng, st.opens + 1, "")
        | .close => (if isOpen then reopened else st.aeng, st.opens, "")
        | .restart => (if isOpen then reopened else st.aeng, st.opens, "")
        | .kill => (none, st.opens, "")
        | _ =>
          if crashedNow then (none, st.opens, "")
          else if q.contains "sealThenAllocFail" then (none, st.opens, "")
          else if faultFired && rotated then (none, st.opens, "")
          else if !isOpen then (st.aeng, st.opens, "")
          else match st.aeng, aop with
            | some a, some ao =>
              let (a', ao') := AEng.step st.cfg a ao
              (some a', st.opens, if ao' == o then "#aeng-ok\n" else "#aeng-mismatch " ++ fmtOut ao' ++ "\n")
            | a, _ => (a, st.opens, "")
      let txt := pre ++ apre ++ match op, o with
        | .bread _ _ _ (some _), .entries ps => "[" ++ ",".intercalate (ps.map fun (p, tr) => fmtDigest p tr) ++ "]"
        | _, _ => fmtOut o
      some ({ st with proc := p, aeng := aeng, opens := opens, tainted := tainted }, txt)
    | none => some (st, "bad-op")
  | _ => none

/-! ### client protocol (C24) -/

def utf8Dec (bs : List UInt8) : Option (List Char) :=
  (String.fromUTF8? (ByteArray.mk bs.toArray)).map String.toList

/-- run `serve` and return the responses together with the backend after them -/
def serveAll (fuel : Nat) (inp : List UInt8) (b : Frame.Backend) : List (List Char) :=
  Frame.serve utf8Dec fuel inp b

def handleFrame (st : DState) (toks : List String) : Option (DState × String) :=
  match toks with
  | ["frame", "reset"] => some ({ st with backend := {} }, "ok")
  | ["frame", "serve", h] =>
    match (if h = "-" then some [] else Hex.decodeBytes h.toList) with
    | some bs =>
      let rs := serveAll (bs.length + 1) bs st.backend
      some (st, "[" ++ ",".intercalate (rs.map fun r => Hex.encodeBytes (String.ofList r).toUTF8.toList |> fun x => if x = "" then "-" else x) ++ "]")
    | none => some (st, "bad-op")
  | ["frame", "ws", n] =>
    match n.toNat? with
    | some k => some (st, if Frame.isWs (Char.ofNat k) then "1" else "0")
    | none => some (st, "bad-op")
  | _ => none

/-! ### octopii log store (C21) -/

namespace LS
open LogStore
def parseId (s : String) : Option LogId :=
  match s.splitOn ":" with
  | [i, t] => do some ⟨← i.toNat?, ← t.toNat?⟩
  | _ => none
def parseEnt (s : String) : Option Ent :=
  match s.splitOn ":" with
  | [i, t, l] => do some ⟨⟨← i.toNat?, ← t.toNat?⟩, ← l.toNat?⟩
  | _ => none
def showId : Option LogId → String
  | none => "-"
  | some l => s!"{l.index}:{l.term}"
def fmtState (m : Mem) (peers : AMap Nat Nat) : String :=
  let ents := (m.log.toArray.qsort (fun a b => a.1 < b.1)).toList
  let last := match ents.getLast? with | some e => some e.2.id | none => m.purged
  let ps := (peers.toArray.qsort (fun a b => a.1 < b.1)).toList
  s!"purged={showId m.purged} last={showId last} vote=" ++
    (match m.vote with | none => "-" | some v => s!"{v.term}:{v.node}:{if v.committed then 1 else 0}") ++
    s!" committed={showId m.committed} log=[" ++ ",".intercalate (ents.map fun e => s!"{e.2.id.index}:{e.2.id.term}:{e.2.len}") ++
    "] peers=[" ++ ",".intercalate (ps.map fun p => s!"{p.1}:{p.2}") ++ "]"
def fmtOut : Out → String
  | .ok => "ok" | .okFlushed => "ok flushed=1" | .errClosed => "err:closed" | .panic => "panic"
  | .state m p => fmtState m p
def parseOp (toks : List String) : Option Op :=
  match toks with
  | ["open"] => some .open_
  | ["state"] => some .state
  | ["restart"] => some .restart
  | ["close"] => some .restart   -- dropping the store inside the process: the same as far as the store can tell
  | ["kill"] => some .kill
  | "append" :: es => (es.mapM parseEnt).map Op.append
  | ["truncate", l] => (parseId l).map Op.truncate
  | ["purge", l] => (parseId l).map Op.purge
  | ["vote", v] =>
    match v.splitOn ":" with
    | [t, n, c] => do some (.vote ⟨← t.toNat?, ← n.toNat?, c == "1"⟩)
    | _ => none
  | ["committed", "none"] => some (.committed none)
  | ["committed", l] => (parseId l).map fun x => .committed (some x)
  | ["peer", i, p] => do some (.peer (← i.toNat?) (← p.toNat?))
  | _ => none
end LS

def handleLS (st : DState) (toks : List String) : Option (DState × String) :=
  match toks with
  | ["ls", "reset"] => some ({ st with node := {}, wwal := {}, wopen := false, lsFault := none, lsPeerFault := none }, "ok")
  | ["ls", "fault", "peer", k] =>
    match st.node.live, k.toNat? with
    | some _, some kk => some ({ st with lsPeerFault := some kk }, "ok")
    | none, some _ => some (st, "err:closed")
    | _, none => some (st, "bad-op")
  | ["ls", "fault", k] =>
    match st.node.live, k.toNat? with
    | some _, some kk => some ({ st with lsFault := some kk }, "ok")
    | none, some _ => some (st, "err:closed")
    | _, none => some (st, "bad-op")
  | ["ls", "wopen"] => some ({ st with wopen := true }, "ok")
  | ["ls", "wclose"] => some ({ st with wopen := false }, "ok")
  | ["ls", "wappend", x] =>
    if st.wopen then some ({ st with wwal := st.wwal.append x }, "ok") else some (st, "err:closed")
  | ["ls", "wreadall"] =>
    if st.wopen then
      let (rs, w) := st.wwal.readAll
      some ({ st with wwal := w }, "[" ++ ",".intercalate rs ++ "]")
    else some (st, "err:closed")
  | "ls" :: rest =>
    match LS.parseOp rest with
    | some op =>
      let q := if LogStore.quirkReadAllConsumes st.node op then "#quirk readAllConsumes\n" else ""
      let wopen := match op with | .restart => false | .kill => false | _ => st.wopen
      -- the armed failures belong to the process: a restart / kill / reopen disarms them
      let st := match op with
        | .restart => { st with lsFault := none, lsPeerFault := none }
        | .kill => { st with lsFault := none, lsPeerFault := none }
        | .open_ => { st with lsFault := none, lsPeerFault := none }
        | _ => st
      match op, st.node.live, st.lsPeerFault with
      | .peer id port, some lv, some k =>
        -- OpenRaftNode::persist_peer_addr_if_needed: the record is written only when the address differs
        if lv.peers.get? id = some port then some (st, "ok")
        else if k = 0 then
          -- the map of the running process is updated first, the record write fails
          some ({ st with lsPeerFault := none,
                          node := { st.node with live := some { lv with peers := lv.peers.insert id port } } }, "err")
        else
          let (n, o) := LogStore.step st.node op
          some ({ st with node := n, lsPeerFault := some (k - 1) }, LS.fmtOut o)
      | _, _, _ =>
        match st.lsFault with
        | some k =>
          let (n, o, rest') := LogStore.stepFault st.node op k
          some ({ st with node := n, wopen := wopen, lsFault := rest' },
            q ++ (match o with | some o => LS.fmtOut o | none => "err"))
        | none =>
          let (n, o) := LogStore.step st.node op
          some ({ st with node := n, wopen := wopen }, q ++ LS.fmtOut o)
    | none => some (st, "bad-op")
  | _ => none

/-! ### data plane (C22, C23) -/

namespace PL
open Plane
def keyStr (k : Key) : String := "t_" ++ String.ofList k.1 ++ "_s_" ++ toString k.2
def resStr : Res → String
  | .ok => "OK"
  | .val x => s!"VAL x{x}"
  | .empty => "EMPTY"
  | .errUnknownTopic t => "ERR unknown topic " ++ String.ofList t
  | .errNotLeader k remote => (if remote then "ERR forward append failed: " else "ERR ") ++ "NotLeaderForPartition: " ++ keyStr k
  | .errNoAddr n => s!"ERR unknown addr for node {n}"
def outStr : StepOut → String
  | .yield_ l k n =>
    "yield " ++ l ++ (match k with | some k => " " ++ keyStr k | none => "") ++
      (match n with | some n => (if l == "leases-refreshed" then s!" n{n}" else s!" {n}") | none => "")
  | .written k e v =>
    "yield written " ++ keyStr k ++ (match v with | some (c, l) => s!" e={e} open={c}@{l}" | none => "")
  | .blocked => "blocked"
  | .done r => "done " ++ resStr r
  | .finished => "finished"
  | .noTask => "no-such-task"
def parsePayload (s : String) : Option Nat :=
  match s.toList with
  | 'x' :: r => (String.ofList r).toNat?
  | _ => none
def sortStr (l : List String) : List String := (l.toArray.qsort (· < ·)).toList
def dump (w : World) : String :=
  " | ".intercalate (w.nodeIds.map fun n =>
    let s := w.node n
    let topics := w.topicOrder.filterMap fun t =>
      (s.md.topics.get? t).map fun ts =>
        String.ofList t ++ s!":{ts.currentSegment}@{ts.leaderNode}[" ++
          ",".intercalate ((List.range (ts.currentSegment - 1)).map fun i =>
            s!"{i + 1}={(ts.sealedSegments.get? (i + 1)).getD 0}") ++ "]"
    -- ordered by the key string (a BTreeMap<String, _> on the other side), then rendered
    let byKey (l : List (String × String)) : List String := ((l.toArray.qsort (fun a b => a.1 < b.1)).toList).map (·.2)
    let offs := byKey (s.offsets.map fun (k, v) => (keyStr k, keyStr k ++ s!"={v}"))
    let curs := if s.cursorLocked then [] else byKey (s.cursors.map fun (t, c) => (String.ofList t, String.ofList t ++ s!":{c.1}:{c.2}"))
    s!"n{n} applied={s.applied} topics=" ++ ";".intercalate topics ++ " offsets=" ++ ",".intercalate offs ++
      " cursors=" ++ ",".intercalate curs)
/-- trigger of the open finding `sealedCountStale`: a sealed segment whose recorded count is not the number of
entries its leader's engine holds for it -/
def countMismatch (w : World) : Bool :=
  let s1 := w.node leaderId
  s1.md.topics.any fun (t, ts) =>
    (List.range (ts.currentSegment - 1)).any fun i =>
      let seg := i + 1
      let ld := (ts.segmentLeaders.get? seg).getD ts.leaderNode
      let q := ((w.node ld).queues.get? (t, seg)).getD {}
      (ts.sealedSegments.get? seg).getD 0 != q.entries.length
/-- the trigger `sealedCountStale`, reported as soon as it holds -/
def stale (w : World) : String := if countMismatch w then "#quirk sealedCountStale\n" else ""
/-- extra lines about the step just taken (ghost state), for the attribution of oracle violations -/
def notes (w w' : World) (tid : Nat) (o : StepOut) : String :=
  let a := if w'.writes.length > w.writes.length then
      match w'.writes.getLast? with
      | some ev => if ev.ownedAtWrite then "" else "#quirk staleLeaseWrite\n"
      | none => ""
    else ""
  let b := match w.tasks.get? tid, o with
    | some (.getPlanned n topic _ _ cur _), .done .empty =>
      -- the plan was made from metadata that is behind the log now, or was behind what the node has applied since
      let curNow := (((w.node n).md.topics.get? topic).map (·.currentSegment)).getD cur
      if (w.node n).applied < w.log.length || cur < curNow then "#quirk readerLagsMetadata\n" else ""
    | _, _ => ""
  a ++ b
end PL

def handlePL (st : DState) (toks : List String) : Option (DState × String) :=
  match toks with
  | ["pl", "init", n, t] =>
    match n.toNat?, t.toNat? with
    | some n, some t => some ({ st with world := Plane.initWorld n t }, "ok")
    | _, _ => some (st, "bad-op")
  | ["pl", "topic", name, l] =>
    match l.toNat? with
    | some l => some ({ st with world := Plane.createTopic st.world name.toList l }, "ok")
    | none => some (st, "bad-op")
  | ["pl", "spawn", tid, "put", n, topic, x] =>
    match tid.toNat?, n.toNat?, PL.parsePayload x with
    | some tid, some n, some x =>
      if st.world.nodeIds.contains n then
        some ({ st with world := { st.world with tasks := st.world.tasks.insert tid (.putStart n topic.toList x) } }, "ok")
      else some (st, "bad-node")
    | _, _, _ => some (st, "bad-op")
  | ["pl", "spawn", tid, "get", n, topic] =>
    match tid.toNat?, n.toNat? with
    | some tid, some n =>
      if st.world.nodeIds.contains n then
        some ({ st with world := { st.world with tasks := st.world.tasks.insert tid (.getStart n topic.toList) } }, "ok")
      else some (st, "bad-node")
    | _, _ => some (st, "bad-op")
  | ["pl", "spawn", tid, "monitor", n] =>
    match tid.toNat?, n.toNat? with
    | some tid, some n =>
      if st.world.nodeIds.contains n then
        some ({ st with world := { st.world with tasks := st.world.tasks.insert tid (.monStart n) } }, "ok")
      else some (st, "bad-node")
    | _, _ => some (st, "bad-op")
  | ["pl", "step", tid] =>
    match tid.toNat? with
    | some tid =>
      let (w', o) := Plane.stepTask st.world tid
      some ({ st with world := w' }, PL.notes st.world w' tid o ++ PL.stale w' ++ PL.outStr o)
    | none => some (st, "bad-op")
  | ["pl", "apply", n] =>
    match n.toNat? with
    | some n =>
      let (w', r) := Plane.applyNext st.world n
      some ({ st with world := w' }, PL.stale w' ++ match r with | some i => s!"applied {i}" | none => "none")
    | none => some (st, "bad-op")
  | ["pl", "sync", n] =>
    match n.toNat? with
    | some n => some ({ st with world := Plane.act st.world (.sync n) }, "ok")
    | none => some (st, "bad-op")
  | ["pl", "drain"] =>
    let (w', outs) := Plane.drain st.world
    let q := if w'.writes.any (fun ev => !ev.ownedAtWrite) && !(st.world.writes.any (fun ev => !ev.ownedAtWrite))
      then "#quirk staleLeaseWrite\n" else ""
    -- a GET that answered EMPTY inside the drain: was its node behind the log?  (drain applies everything first, so no)
    some ({ st with world := w' }, q ++ PL.stale w' ++ " | ".intercalate (outs.map fun (tid, o) => s!"t{tid} " ++ PL.outStr o))
  | ["pl", "dump"] =>
    some (st, (if PL.countMismatch st.world then "#quirk sealedCountStale\n" else "") ++ PL.dump st.world)
  | _ => none

/-! ### the Raft state-machine adapter (C19) -/

namespace AD
open Adapter
def parsePayload (p : String) : Option Payload :=
  match p.toList with
  | ['b'] => some .blank
  | 'm' :: r => (String.ofList r).toNat?.map Payload.membership
  | 's' :: r =>
    match (String.ofList r).splitOn "=" with
    | [k, v] => do some (.normal (.set (← k.toNat?) (← v.toNat?)))
    | _ => none
  | 'g' :: r => (String.ofList r).toNat?.map fun k => .normal (.get k)
  | 'd' :: r => (String.ofList r).toNat?.map fun k => .normal (.del k)
  | ['x'] => some (.normal .bad)
  | _ => none
def parseEntry (tok : String) : Option REntry :=
  match tok.splitOn ":" with
  | [i, t, p] => do some { index := ← i.toNat?, term := ← t.toNat?, payload := ← parsePayload p, responder := false }
  | [i, t, p, "r"] => do some { index := ← i.toNat?, term := ← t.toNat?, payload := ← parsePayload p, responder := true }
  | _ => none
def cmdStr : Cmd → String
  | .set k v => s!"SET_{k}_{v}"
  | .get k => s!"GET_{k}"
  | .del k => s!"DELETE_{k}"
  | .bad => "FROB"
def respStr : Resp → String
  | .empty => ""
  | .ok => "OK"
  | .val v => toString v
  | .notFound => "NOT_FOUND"
def lidStr : Option (Nat × Nat) → String
  | none => "-"
  | some (i, t) => s!"{i}:{t}"
def stateStr (s : SmSt) : String :=
  let kvs := ((s.kv.map fun (k, v) => s!"{k}={v}").toArray.qsort (· < ·)).toList
  s!"applied={lidStr s.lastApplied} membership={lidStr s.lastMembership.1}/{s.lastMembership.2} cmds=[" ++
    ",".intercalate (s.cmds.map cmdStr) ++ "] kv=[" ++ ",".intercalate kvs ++ "]"
end AD

def handleAD (st : DState) (toks : List String) : Option (DState × String) :=
  match toks with
  | ["ad", "reset"] => some ({ st with adapter := none }, "ok")
  | ["ad", "restart"] => some ({ st with adapter := none }, "ok")
  | ["ad", "sm", "new"] => some ({ st with adapter := some {} }, "ok")
  | ["ad", "sm", "failnext"] =>
    match st.adapter with
    | some s => some ({ st with adapter := some { s with failNext := true } }, "ok")
    | none => some (st, "err:closed")
  | ["ad", "sm", "state"] =>
    match st.adapter with
    | some s => some (st, AD.stateStr s)
    | none => some (st, "err:closed")
  | "ad" :: "sm" :: "apply" :: rest =>
    match st.adapter with
    | none => some (st, "err:closed")
    | some s =>
      match rest.mapM AD.parseEntry with
      | none => some (st, "bad-op")
      | some es =>
        let (s', os, ok) := Adapter.applyAll s es
        some ({ st with adapter := some s' },
          (if ok then "ok" else "err") ++ " resp=[" ++ ",".intercalate (os.map fun (i, r) => s!"{i}=" ++ AD.respStr r) ++ "]")
  | _ => none

def step (st : DState) (line : String) : DState × String :=
  let toks := (line.trimAscii.toString.splitOn " ").filter (· ≠ "")
  match handlePure toks with
  | some r => (st, r)
  | none =>
    match handleMeta st toks with
    | some r => r
    | none =>
      match handleEng st toks with
      | some r => r
      | none =>
        match handleFrame st toks with
        | some r => r
        | none =>
          match handleLS st toks with
          | some r => r
          | none =>
            match handlePL st toks with
            | some r => r
            | none =>
              match handleAD st toks with
              | some r => r
              | none => (st, "bad-op")

partial def loop (h : IO.FS.Stream) (out : IO.FS.Stream) (st : DState) : IO Unit := do
  let line ← h.getLine
  if line.isEmpty then return ()
  let (st', r) := step st line
  out.putStrLn r
  loop h out st'

def main : IO Unit := do
  let out ← IO.getStdout
  loop (← IO.getStdin) out {}
  out.flush
